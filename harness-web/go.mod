module verifharnessweb

go 1.24.6

require (
	github.com/gin-gonic/gin v1.10.0
	github.com/gofiber/fiber/v2 v2.52.6
	github.com/junioryono/godi/v4 v4.0.0
	github.com/junioryono/godi/v4/chi v0.0.0
	github.com/junioryono/godi/v4/echo v0.0.0
	github.com/junioryono/godi/v4/fiber v0.0.0
	github.com/junioryono/godi/v4/gin v0.0.0
	github.com/junioryono/godi/v4/http v0.0.0
	github.com/labstack/echo/v4 v4.13.3
)

require (
	github.com/andybalholm/brotli v1.1.0 // indirect
	github.com/gabriel-vasile/mimetype v1.4.3 // indirect
	github.com/gin-contrib/sse v0.1.0 // indirect
	github.com/go-playground/locales v0.14.1 // indirect
	github.com/go-playground/universal-translator v0.18.1 // indirect
	github.com/go-playground/validator/v10 v10.20.0 // indirect
	github.com/google/uuid v1.6.0 // indirect
	github.com/klauspost/compress v1.17.9 // indirect
	github.com/labstack/gommon v0.4.2 // indirect
	github.com/leodido/go-urn v1.4.0 // indirect
	github.com/mattn/go-colorable v0.1.13 // indirect
	github.com/mattn/go-isatty v0.0.20 // indirect
	github.com/mattn/go-runewidth v0.0.16 // indirect
	github.com/pelletier/go-toml/v2 v2.2.2 // indirect
	github.com/rivo/uniseg v0.2.0 // indirect
	github.com/ugorji/go/codec v1.2.12 // indirect
	github.com/valyala/bytebufferpool v1.0.0 // indirect
	github.com/valyala/fasthttp v1.51.0 // indirect
	github.com/valyala/fasttemplate v1.2.2 // indirect
	github.com/valyala/tcplisten v1.0.0 // indirect
	golang.org/x/crypto v0.31.0 // indirect
	golang.org/x/net v0.33.0 // indirect
	golang.org/x/sys v0.28.0 // indirect
	golang.org/x/text v0.21.0 // indirect
	google.golang.org/protobuf v1.34.1 // indirect
	gopkg.in/yaml.v3 v3.0.1 // indirect
)

replace github.com/junioryono/godi/v4 => /repo

replace github.com/junioryono/godi/v4/chi => /repo/chi

replace github.com/junioryono/godi/v4/echo => /repo/echo

replace github.com/junioryono/godi/v4/fiber => /repo/fiber

replace github.com/junioryono/godi/v4/gin => /repo/gin

replace github.com/junioryono/godi/v4/http => /repo/http
