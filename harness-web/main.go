// Command verifharnessweb drives the five web integrations of godi (net/http, chi, gin, echo,
// fiber) through request scenarios and records what every configured middleware, handler,
// Handle-wrapped controller method and error handler observed, plus the closing of request
// scopes (verif hook) and of a scoped disposable probe.  The ndjson trace is validated against
// the TLA+ specification Middleware.tla.
package main

import (
	"bufio"
	"context"
	"encoding/json"
	"errors"
	"fmt"
	"io"
	"net/http"
	"net/http/httptest"
	"os"
	"strconv"
	"sync"
	"sync/atomic"
	"time"

	ginpkg "github.com/gin-gonic/gin"
	fiberpkg "github.com/gofiber/fiber/v2"
	godi "github.com/junioryono/godi/v4"
	godichi "github.com/junioryono/godi/v4/chi"
	godiecho "github.com/junioryono/godi/v4/echo"
	godifiber "github.com/junioryono/godi/v4/fiber"
	godigin "github.com/junioryono/godi/v4/gin"
	godihttp "github.com/junioryono/godi/v4/http"
	echopkg "github.com/labstack/echo/v4"
)

type M = map[string]any

var (
	out    *bufio.Writer
	outMu  sync.Mutex
	probes int64
	ctrls  int64
)

func emit(m M) {
	b, _ := json.Marshal(m)
	outMu.Lock()
	out.Write(b)
	out.WriteByte('\n')
	outMu.Unlock()
}

// ---- request-scoped services

type Probe struct{ ID int }

func newProbe() *Probe { return &Probe{ID: int(atomic.AddInt64(&probes, 1))} }

var closeFail bool // the scenario in progress wants the scoped instance's Close to fail

var errProbeClose = errors.New("verif: scripted close failure")

func (p *Probe) Close() error {
	emit(M{"ev": "probe_close", "probe": p.ID})
	if closeFail {
		return errProbeClose
	}
	return nil
}

// the configured close-error handler of every integration
func closeErrH(err error) { emit(M{"ev": "closeerrh", "disposal": err != nil}) }

type Ctrl struct {
	ID    int
	Probe *Probe
}

func newCtrl(p *Probe) *Ctrl { return &Ctrl{ID: int(atomic.AddInt64(&ctrls, 1)), Probe: p} }

var errMw = errors.New("verif: scripted middleware failure")

type Scenario struct {
	Fw         string `json:"fw"`
	Nmw        int    `json:"nmw"`
	MwFail     int    `json:"mwfail"`
	Handler    string `json:"handler"` // ok | err | panic | handle
	Registered bool   `json:"registered"`
	Method     string `json:"method"` // ok | err | panic
	Recovery   bool   `json:"recovery"`
	ScopeMw    bool   `json:"scopemw"`
	ProvClosed bool   `json:"provclosed"`
	Batch      int    `json:"batch"`
	Outer      bool   `json:"outer"` // the incoming request context already carries an application-level scope
	CloseFail  bool   `json:"closefail"`
	DefEH      bool   `json:"defeh"` // no error handler configured: the integration's default one is in use
	// ReplaceCtx (fiber): a handler between the scope middleware and Handle replaces the user context with one that
	// is not derived from the scope's; the fiber integration also keeps the scope in the request locals
	ReplaceCtx bool `json:"replacectx"`
	// NoAbort (gin): the configured error handler answers but does not abort the handler chain
	NoAbort bool `json:"noabort"`
	// MwCanceled: the error a failing middleware returns wraps context.Canceled
	MwCanceled bool `json:"mwcanceled"`
	// ReqCancel: the request's context is cancelled while the handler runs (the client went away); the handler waits
	// until the request scope has been closed by its context watcher and returns: the close at the end of the
	// request is then the second one
	ReqCancel bool `json:"reqcancel"`
	// MwPanic: the failing configured middleware panics instead of returning an error
	MwPanic bool `json:"mwpanic"`
}

var reqCancels sync.Map // rq -> context.CancelFunc

// clientGone cancels the context the request came with and waits (bounded) until its scope refuses further use
func clientGone(rq int, s godi.Scope) {
	if f, ok := reqCancels.Load(rq); ok {
		f.(context.CancelFunc)()
	}
	if s == nil {
		return
	}
	// ... until the Close that the cancellation started has COMPLETED (hook event at the end of Close): the close at the
	// end of the request is then a pure no-op.  (Waiting only for "refuses further use" left a window in which the
	// watcher was still disposing when the request ended - the trace then showed the scope closed after the request,
	// which the code does not promise to avoid for a cancelled request: a false alarm of this dimension, seen on a
	// loaded machine.)
	id := s.ID()
	for i := 0; i < 3000; i++ {
		if _, ok := closedScopes.Load(id); ok {
			return
		}
		time.Sleep(time.Millisecond)
	}
}

var closedScopes sync.Map // scope id -> true once its Close has completed (hook C_ret)

// outerCtx is the context every incoming request carries (context.Background unless the scenario says the
// server's base context belongs to an application-level scope of the same provider)
var outerCtx = context.Background()

func newReq(rq int) *http.Request {
	ctx, cancel := context.WithCancel(outerCtx)
	reqCancels.Store(rq, cancel)
	req := httptest.NewRequest("GET", "/", nil).WithContext(ctx)
	req.Header.Set("X-Rq", strconv.Itoa(rq))
	return req
}

func scopeID(s godi.Scope) string {
	if s == nil {
		return "-"
	}
	return s.ID()
}

// what a callback sees of the request scope: its id and the id of the scoped probe resolved from it
func seen(s godi.Scope) (string, int) {
	if s == nil {
		return "-", 0
	}
	p, err := godi.Resolve[*Probe](s)
	if err != nil || p == nil {
		return s.ID(), 0
	}
	return s.ID(), p.ID
}

func rqOf(h http.Header) int {
	n, _ := strconv.Atoi(h.Get("X-Rq"))
	return n
}

func kindOfErr(err error) string {
	switch {
	case errors.Is(err, errMw):
		return "mw"
	case errors.Is(err, godi.ErrProviderDisposed), errors.Is(err, godi.ErrScopeDisposed):
		return "scope"
	}
	return "other"
}

// shared behaviour of the plain handler
func plainHandler(sc *Scenario, rq int, ctx context.Context) error {
	s, _ := godi.FromContext(ctx)
	sid, pid := seen(s)
	emit(M{"ev": "handler", "rq": rq, "scope": sid, "probe": pid})
	if sc.ReqCancel {
		clientGone(rq, s)
	}
	switch sc.Handler {
	case "panic":
		panic("verif: scripted handler panic")
	case "err":
		return errors.New("verif: scripted handler error")
	}
	return nil
}

func method(sc *Scenario, rq int, c *Ctrl, ctx context.Context) error {
	s, _ := godi.FromContext(ctx)
	pid := 0
	if c != nil && c.Probe != nil {
		pid = c.Probe.ID
	}
	cid := 0
	if c != nil {
		cid = c.ID
	}
	emit(M{"ev": "method", "rq": rq, "scope": scopeID(s), "probe": pid, "ctrl": cid})
	if sc.ReqCancel {
		clientGone(rq, s)
	}
	switch sc.Method {
	case "panic":
		panic("verif: scripted method panic")
	case "err":
		return errors.New("verif: scripted method error")
	}
	return nil
}

// ---- one application per framework; serve(rq) performs one request and reports status / panic

type app struct {
	serve func(rq int) (status int, panicked bool)
}

func mwFunc(sc *Scenario, i int, rq func() int, s godi.Scope) error {
	sid, pid := seen(s)
	emit(M{"ev": "mw", "rq": rq(), "i": i, "scope": sid, "probe": pid})
	if sc.MwFail == i {
		if sc.MwPanic {
			panic("verif: scripted middleware panic")
		}
		if sc.MwCanceled {
			// the failure is (also) a context cancellation - e.g. a lookup that failed because the client went away
			return fmt.Errorf("%w: %w", errMw, context.Canceled)
		}
		return errMw
	}
	return nil
}

func buildHTTP(sc *Scenario, p godi.Provider, chi bool) *app {
	var opts []godihttp.Option
	var copts []godichi.Option
	for i := 1; i <= sc.Nmw; i++ {
		i := i
		f := func(s godi.Scope, r *http.Request) error {
			return mwFunc(sc, i, func() int { return rqOf(r.Header) }, s)
		}
		opts = append(opts, godihttp.WithMiddleware(f))
		copts = append(copts, godichi.WithMiddleware(f))
	}
	eh := func(w http.ResponseWriter, r *http.Request, err error) {
		emit(M{"ev": "errh", "rq": rqOf(r.Header), "kind": kindOfErr(err)})
		w.WriteHeader(500)
	}
	if !sc.DefEH {
		opts = append(opts, godihttp.WithErrorHandler(eh))
		copts = append(copts, godichi.WithErrorHandler(eh))
	}
	if sc.CloseFail {
		opts = append(opts, godihttp.WithCloseErrorHandler(closeErrH))
		copts = append(copts, godichi.WithCloseErrorHandler(closeErrH))
	}
	var h http.Handler
	if sc.Handler == "handle" {
		meth := func(c *Ctrl, w http.ResponseWriter, r *http.Request) { method(sc, rqOf(r.Header), c, r.Context()) }
		se := func(w http.ResponseWriter, r *http.Request, err error) {
			emit(M{"ev": "errh", "rq": rqOf(r.Header), "kind": "handle_scope"})
			w.WriteHeader(500)
		}
		re := func(w http.ResponseWriter, r *http.Request, err error) {
			emit(M{"ev": "errh", "rq": rqOf(r.Header), "kind": "handle_resolve"})
			w.WriteHeader(500)
		}
		ph := func(w http.ResponseWriter, r *http.Request, v any) {
			emit(M{"ev": "errh", "rq": rqOf(r.Header), "kind": "panic"})
			w.WriteHeader(500)
		}
		if chi {
			h = godichi.Handle(meth, godichi.WithPanicRecovery(sc.Recovery), godichi.WithScopeErrorHandler(se),
				godichi.WithResolutionErrorHandler(re), godichi.WithPanicHandler(ph))
		} else {
			h = godihttp.Handle(meth, godihttp.WithPanicRecovery(sc.Recovery), godihttp.WithScopeErrorHandler(se),
				godihttp.WithResolutionErrorHandler(re), godihttp.WithPanicHandler(ph))
		}
	} else {
		h = http.HandlerFunc(func(w http.ResponseWriter, r *http.Request) {
			if err := plainHandler(sc, rqOf(r.Header), r.Context()); err != nil {
				w.WriteHeader(500)
			}
		})
	}
	if sc.ScopeMw {
		if chi {
			h = godichi.ScopeMiddleware(p, copts...)(h)
		} else {
			h = godihttp.ScopeMiddleware(p, opts...)(h)
		}
	}
	return &app{serve: func(rq int) (status int, panicked bool) {
		req := newReq(rq)
		rec := httptest.NewRecorder()
		func() {
			defer func() {
				if r := recover(); r != nil {
					panicked = true
				}
			}()
			h.ServeHTTP(rec, req)
		}()
		return rec.Code, panicked
	}}
}

func buildGin(sc *Scenario, p godi.Provider) *app {
	ginpkg.SetMode(ginpkg.ReleaseMode)
	g := ginpkg.New()
	var panics sync.Map
	g.Use(func(c *ginpkg.Context) {
		defer func() {
			if r := recover(); r != nil {
				panics.Store(rqOf(c.Request.Header), true)
				c.AbortWithStatus(500)
			}
		}()
		c.Next()
	})
	if sc.ScopeMw {
		var opts []godigin.Option
		for i := 1; i <= sc.Nmw; i++ {
			i := i
			opts = append(opts, godigin.WithMiddleware(func(s godi.Scope, c *ginpkg.Context) error {
				return mwFunc(sc, i, func() int { return rqOf(c.Request.Header) }, s)
			}))
		}
		if !sc.DefEH {
			opts = append(opts, godigin.WithErrorHandler(func(c *ginpkg.Context, err error) {
				emit(M{"ev": "errh", "rq": rqOf(c.Request.Header), "kind": kindOfErr(err)})
				if sc.NoAbort {
					c.Status(500)
					return
				}
				c.AbortWithStatus(500)
			}))
		}
		if sc.CloseFail {
			opts = append(opts, godigin.WithCloseErrorHandler(closeErrH))
		}
		g.Use(godigin.ScopeMiddleware(p, opts...))
	}
	if sc.Handler == "handle" {
		g.GET("/", godigin.Handle(func(ct *Ctrl, c *ginpkg.Context) { method(sc, rqOf(c.Request.Header), ct, c.Request.Context()) },
			godigin.WithPanicRecovery(sc.Recovery),
			godigin.WithScopeErrorHandler(func(c *ginpkg.Context, err error) {
				emit(M{"ev": "errh", "rq": rqOf(c.Request.Header), "kind": "handle_scope"})
				c.AbortWithStatus(500)
			}),
			godigin.WithResolutionErrorHandler(func(c *ginpkg.Context, err error) {
				emit(M{"ev": "errh", "rq": rqOf(c.Request.Header), "kind": "handle_resolve"})
				c.AbortWithStatus(500)
			}),
			godigin.WithPanicHandler(func(c *ginpkg.Context, v any) {
				emit(M{"ev": "errh", "rq": rqOf(c.Request.Header), "kind": "panic"})
				c.AbortWithStatus(500)
			})))
	} else {
		g.GET("/", func(c *ginpkg.Context) {
			if err := plainHandler(sc, rqOf(c.Request.Header), c.Request.Context()); err != nil {
				c.AbortWithStatus(500)
			}
		})
	}
	return &app{serve: func(rq int) (int, bool) {
		req := newReq(rq)
		rec := httptest.NewRecorder()
		g.ServeHTTP(rec, req)
		_, pk := panics.Load(rq)
		return rec.Code, pk
	}}
}

func buildEcho(sc *Scenario, p godi.Provider) *app {
	e := echopkg.New()
	e.HideBanner = true
	var panics sync.Map
	e.Use(func(next echopkg.HandlerFunc) echopkg.HandlerFunc {
		return func(c echopkg.Context) (err error) {
			defer func() {
				if r := recover(); r != nil {
					panics.Store(rqOf(c.Request().Header), true)
					err = c.NoContent(500)
				}
			}()
			return next(c)
		}
	})
	if sc.ScopeMw {
		var opts []godiecho.Option
		for i := 1; i <= sc.Nmw; i++ {
			i := i
			opts = append(opts, godiecho.WithMiddleware(func(s godi.Scope, c echopkg.Context) error {
				return mwFunc(sc, i, func() int { return rqOf(c.Request().Header) }, s)
			}))
		}
		if !sc.DefEH {
			opts = append(opts, godiecho.WithErrorHandler(func(c echopkg.Context, err error) error {
				emit(M{"ev": "errh", "rq": rqOf(c.Request().Header), "kind": kindOfErr(err)})
				return c.NoContent(500)
			}))
		}
		if sc.CloseFail {
			opts = append(opts, godiecho.WithCloseErrorHandler(closeErrH))
		}
		e.Use(godiecho.ScopeMiddleware(p, opts...))
	}
	if sc.Handler == "handle" {
		e.GET("/", godiecho.Handle(func(ct *Ctrl, c echopkg.Context) error {
			return method(sc, rqOf(c.Request().Header), ct, c.Request().Context())
		},
			godiecho.WithPanicRecovery(sc.Recovery),
			godiecho.WithScopeErrorHandler(func(c echopkg.Context, err error) error {
				emit(M{"ev": "errh", "rq": rqOf(c.Request().Header), "kind": "handle_scope"})
				return c.NoContent(500)
			}),
			godiecho.WithResolutionErrorHandler(func(c echopkg.Context, err error) error {
				emit(M{"ev": "errh", "rq": rqOf(c.Request().Header), "kind": "handle_resolve"})
				return c.NoContent(500)
			}),
			godiecho.WithPanicHandler(func(c echopkg.Context, v any) error {
				emit(M{"ev": "errh", "rq": rqOf(c.Request().Header), "kind": "panic"})
				return c.NoContent(500)
			})))
	} else {
		e.GET("/", func(c echopkg.Context) error {
			if err := plainHandler(sc, rqOf(c.Request().Header), c.Request().Context()); err != nil {
				return c.NoContent(500)
			}
			return c.NoContent(200)
		})
	}
	return &app{serve: func(rq int) (int, bool) {
		req := newReq(rq)
		rec := httptest.NewRecorder()
		e.ServeHTTP(rec, req)
		_, pk := panics.Load(rq)
		return rec.Code, pk
	}}
}

func buildFiber(sc *Scenario, p godi.Provider) *app {
	a := fiberpkg.New(fiberpkg.Config{DisableStartupMessage: true})
	if sc.Outer {
		octx := outerCtx
		a.Use(func(c *fiberpkg.Ctx) error { c.SetUserContext(octx); return c.Next() })
	}
	if sc.ReqCancel {
		// fiber requests carry no context of their own: the user context is set by a handler in front
		a.Use(func(c *fiberpkg.Ctx) error {
			n, _ := strconv.Atoi(c.Get("X-Rq"))
			ctx, cancel := context.WithCancel(context.Background())
			reqCancels.Store(n, cancel)
			c.SetUserContext(ctx)
			return c.Next()
		})
	}
	var panics sync.Map
	frq := func(c *fiberpkg.Ctx) int { n, _ := strconv.Atoi(c.Get("X-Rq")); return n }
	a.Use(func(c *fiberpkg.Ctx) (err error) {
		defer func() {
			if r := recover(); r != nil {
				panics.Store(frq(c), true)
				err = c.SendStatus(500)
			}
		}()
		return c.Next()
	})
	if sc.ScopeMw {
		var opts []godifiber.Option
		for i := 1; i <= sc.Nmw; i++ {
			i := i
			opts = append(opts, godifiber.WithMiddleware(func(s godi.Scope, c *fiberpkg.Ctx) error {
				return mwFunc(sc, i, func() int { return frq(c) }, s)
			}))
		}
		if !sc.DefEH {
			opts = append(opts, godifiber.WithErrorHandler(func(c *fiberpkg.Ctx, err error) error {
				emit(M{"ev": "errh", "rq": frq(c), "kind": kindOfErr(err)})
				return c.SendStatus(500)
			}))
		}
		if sc.CloseFail {
			opts = append(opts, godifiber.WithCloseErrorHandler(closeErrH))
		}
		a.Use(godifiber.ScopeMiddleware(p, opts...))
	}
	if sc.ReplaceCtx {
		a.Use(func(c *fiberpkg.Ctx) error { c.SetUserContext(context.Background()); return c.Next() })
	}
	if sc.Handler == "handle" {
		a.Get("/", godifiber.Handle(func(ct *Ctrl, c *fiberpkg.Ctx) error {
			ctx := c.UserContext()
			if sc.ReplaceCtx {
				if s := godifiber.FromContext(c); s != nil {
					ctx = s.Context() // the scope the integration keeps in the locals
				}
			}
			return method(sc, frq(c), ct, ctx)
		},
			godifiber.WithPanicRecovery(sc.Recovery),
			godifiber.WithScopeErrorHandler(func(c *fiberpkg.Ctx, err error) error {
				emit(M{"ev": "errh", "rq": frq(c), "kind": "handle_scope"})
				return c.SendStatus(500)
			}),
			godifiber.WithResolutionErrorHandler(func(c *fiberpkg.Ctx, err error) error {
				emit(M{"ev": "errh", "rq": frq(c), "kind": "handle_resolve"})
				return c.SendStatus(500)
			}),
			godifiber.WithPanicHandler(func(c *fiberpkg.Ctx, v any) error {
				emit(M{"ev": "errh", "rq": frq(c), "kind": "panic"})
				return c.SendStatus(500)
			})))
	} else {
		a.Get("/", func(c *fiberpkg.Ctx) error {
			// the fiber integration exposes the scope through the user context and through Locals
			if s := godifiber.FromContext(c); s != nil {
				if cs, err := godi.FromContext(c.UserContext()); err != nil || cs != s {
					emit(M{"ev": "mismatch", "rq": frq(c), "what": "fiber locals scope differs from user-context scope"})
				}
			}
			if err := plainHandler(sc, frq(c), c.UserContext()); err != nil {
				return c.SendStatus(500)
			}
			return c.SendStatus(200)
		})
	}
	return &app{serve: func(rq int) (int, bool) {
		req := newReq(rq)
		resp, err := a.Test(req, -1)
		status := 0
		if err == nil {
			status = resp.StatusCode
			io.Copy(io.Discard, resp.Body)
			resp.Body.Close()
		}
		_, pk := panics.Load(rq)
		return status, pk
	}}
}

func buildDecoy(sc *Scenario, p godi.Provider) {
	decoy := func(rq func() int) error {
		emit(M{"ev": "mw", "rq": rq(), "i": 99, "scope": "decoy", "probe": 0})
		return nil
	}
	switch sc.Fw {
	case "http":
		f := func(s godi.Scope, r *http.Request) error { return decoy(func() int { return rqOf(r.Header) }) }
		_ = godihttp.ScopeMiddleware(p, godihttp.WithMiddleware(f), godihttp.WithMiddleware(f),
			godihttp.WithErrorHandler(func(w http.ResponseWriter, r *http.Request, err error) {
				emit(M{"ev": "errh", "rq": rqOf(r.Header), "kind": "decoy"})
			}))
	case "chi":
		f := func(s godi.Scope, r *http.Request) error { return decoy(func() int { return rqOf(r.Header) }) }
		_ = godichi.ScopeMiddleware(p, godichi.WithMiddleware(f), godichi.WithMiddleware(f),
			godichi.WithErrorHandler(func(w http.ResponseWriter, r *http.Request, err error) {
				emit(M{"ev": "errh", "rq": rqOf(r.Header), "kind": "decoy"})
			}))
	case "gin":
		f := func(s godi.Scope, c *ginpkg.Context) error {
			return decoy(func() int { return rqOf(c.Request.Header) })
		}
		_ = godigin.ScopeMiddleware(p, godigin.WithMiddleware(f), godigin.WithMiddleware(f),
			godigin.WithErrorHandler(func(c *ginpkg.Context, err error) {
				emit(M{"ev": "errh", "rq": rqOf(c.Request.Header), "kind": "decoy"})
			}))
	case "echo":
		f := func(s godi.Scope, c echopkg.Context) error {
			return decoy(func() int { return rqOf(c.Request().Header) })
		}
		_ = godiecho.ScopeMiddleware(p, godiecho.WithMiddleware(f), godiecho.WithMiddleware(f),
			godiecho.WithErrorHandler(func(c echopkg.Context, err error) error {
				emit(M{"ev": "errh", "rq": rqOf(c.Request().Header), "kind": "decoy"})
				return nil
			}))
	case "fiber":
		frq := func(c *fiberpkg.Ctx) int { n, _ := strconv.Atoi(c.Get("X-Rq")); return n }
		f := func(s godi.Scope, c *fiberpkg.Ctx) error { return decoy(func() int { return frq(c) }) }
		_ = godifiber.ScopeMiddleware(p, godifiber.WithMiddleware(f), godifiber.WithMiddleware(f),
			godifiber.WithErrorHandler(func(c *fiberpkg.Ctx, err error) error {
				emit(M{"ev": "errh", "rq": frq(c), "kind": "decoy"})
				return nil
			}))
	}
}

var rqCounter int

func runScenario(sc *Scenario, raw []byte, run int) {
	emit(M{"ev": "reset", "run": run, "cfg": json.RawMessage(raw)})
	closedScopes = sync.Map{}
	c := godi.NewCollection()
	c.AddScoped(newProbe)
	if sc.Registered {
		c.AddScoped(newCtrl)
	}
	p, err := c.Build()
	if err != nil {
		emit(M{"ev": "harness_error", "msg": err.Error()})
		return
	}
	if sc.ProvClosed {
		p.Close()
	}
	closeFail = sc.CloseFail
	outerCtx = context.Background()
	if sc.Outer {
		as, err := p.CreateScope(context.Background())
		if err != nil {
			emit(M{"ev": "harness_error", "msg": err.Error()})
			return
		}
		outerCtx = as.Context()
		emit(M{"ev": "outer", "scope": as.ID()})
	}
	var a *app
	switch sc.Fw {
	case "http":
		a = buildHTTP(sc, p, false)
	case "chi":
		a = buildHTTP(sc, p, true)
	case "gin":
		a = buildGin(sc, p)
	case "echo":
		a = buildEcho(sc, p)
	case "fiber":
		a = buildFiber(sc, p)
	default:
		fmt.Fprintln(os.Stderr, "unknown framework", sc.Fw)
		os.Exit(4)
	}
	// A second, differently configured instance of the same integration is built AFTER the one under test (and
	// before any request): its configuration must not leak into the first.  Its middlewares identify themselves
	// as position 99, which no configuration of the instance under test has.
	buildDecoy(sc, p)
	var wg sync.WaitGroup
	start := make(chan struct{})
	for i := 0; i < sc.Batch; i++ {
		rqCounter++
		rq := rqCounter
		emit(M{"ev": "req", "rq": rq})
		wg.Add(1)
		go func() {
			defer wg.Done()
			<-start
			status, panicked := a.serve(rq)
			emit(M{"ev": "done", "rq": rq, "status": status, "panicked": panicked})
		}()
	}
	close(start)
	wg.Wait()
	reqCancels.Range(func(k, f any) bool { f.(context.CancelFunc)(); reqCancels.Delete(k); return true })
	emit(M{"ev": "end"})
	if !sc.ProvClosed {
		p.Close()
	}
}

func main() {
	out = bufio.NewWriterSize(os.Stdout, 1<<20)
	defer func() { outMu.Lock(); out.Flush(); outMu.Unlock() }()
	godi.VerifHook = func(gate bool, point string, args ...any) {
		if point == "C_ret" && len(args) > 0 {
			if s, ok := args[0].(godi.Scope); ok {
				emit(M{"ev": "scope_closed", "scope": s.ID()})
				closedScopes.Store(s.ID(), true)
			}
		}
	}
	in := bufio.NewScanner(os.Stdin)
	in.Buffer(make([]byte, 1<<20), 1<<24)
	run := 0
	for in.Scan() {
		run++
		var sc Scenario
		raw := append([]byte(nil), in.Bytes()...)
		if err := json.Unmarshal(raw, &sc); err != nil {
			fmt.Fprintln(os.Stderr, "bad scenario:", err)
			os.Exit(4)
		}
		if sc.Batch < 1 {
			sc.Batch = 1
		}
		runScenario(&sc, raw, run)
	}
}
