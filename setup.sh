#!/bin/sh
# Offline setup: build the harness once against /repo (warms the Go build cache) and syntax-check every spec.
set -e
cd "$(dirname "$0")"
export GOFLAGS=-mod=mod GOPROXY=off
cp /repo/go.sum harness/go.sum
python3 gen/genlib.py harness/libgen.go
(cd harness && go build -tags verif -o /dev/null . )
tmp=$(mktemp -d)
cp spec/*.tla "$tmp"/
for f in "$tmp"/*.tla; do (cd "$tmp" && tla-sany "$(basename "$f")" >/dev/null 2>&1) || { echo "sany failed: $f"; rm -rf "$tmp"; exit 1; }; done
rm -rf "$tmp"
echo setup ok
