"""Shared driver library for the godi verification checks.

Pipeline of every check:
  TLC design model (properties checked, scenarios emitted)  ->  Go harness runs the
  scenarios against the real code built from /repo's working tree  ->  ndjson traces  ->
  TLC trace specification evaluates every property-tagged guard at every step  ->
  classification (violation / known finding)  ->  evidence file.
Exit codes: 0 held, 1 violation(s) (VIOLATION lines printed), 2 machinery failure.
"""
import concurrent.futures as cf
import hashlib
import json
import os
import random
import re
import shutil
import subprocess
import sys
import tempfile
import time

VERIF = os.path.dirname(os.path.dirname(os.path.abspath(__file__)))
SPEC = os.path.join(VERIF, "spec")
HARNESS = os.path.join(VERIF, "harness")
EVID = os.environ.get("VERIF_EVIDENCE") or os.path.join(VERIF, "evidence")   # VERIF_EVIDENCE: runs against a changed copy of the repository (tools/try_mutant_wt.py) must not touch the committed evidence
REPLAY = os.path.join(EVID, "replay")
REPO = os.environ.get("VERIF_REPO", "/repo")
NCPU = os.cpu_count() or 4


class Inconclusive(Exception):
    pass


def goenv():
    e = dict(os.environ)
    e.update(GOFLAGS="-mod=mod", GOPROXY="off")
    e.pop("GOSUMDB", None)
    e.pop("GOTOOLCHAIN", None)
    return e


class Ctx:
    """One check run: scratch dir, seed, tier, collected stats."""

    def __init__(self, pid, tier, seed):
        self.pid, self.tier, self.seed = pid, tier, seed
        self.t0 = time.time()
        self.scratch = tempfile.mkdtemp(prefix="verif-%s-" % pid)
        self.rng = random.Random(seed)
        self.states = 0
        self.transitions = 0
        self.design_runs = []
        self.traces = 0
        self.events = 0
        self.evals = 0
        self.distinct = set()
        self.samples = []
        self.viol = []          # dicts: family, guard, scenario, event, kf
        self.assumptions = []
        self.notes = []
        self.exhaustive = []
        self._bins = {}

    def cleanup(self):
        shutil.rmtree(self.scratch, ignore_errors=True)

    def sub(self, name):
        d = os.path.join(self.scratch, name)
        os.makedirs(d, exist_ok=True)
        return d

    # ---------------------------------------------------------------- build
    def harness_bin(self, which="harness", tags="verif", race=False):
        """Build the harness against REPO's working tree.  The module is built in a scratch copy whose replace
        directives point at REPO (default /repo; VERIF_REPO overrides it, e.g. for a snapshot), so that concurrent
        checks never write into /verif."""
        key = (which, tags, race)
        if key in self._bins:
            return self._bins[key]
        src0 = os.path.join(VERIF, which)
        src = os.path.join(self.scratch, "src-" + which)
        if not os.path.isdir(src):
            shutil.copytree(src0, src, ignore=shutil.ignore_patterns("go.sum", "libgen.go"))
            gm = os.path.join(src, "go.mod")
            with open(gm) as f:
                txt = f.read()
            txt = txt.replace("=> /repo", "=> " + REPO)
            with open(gm, "w") as f:
                f.write(txt)
            sumf = os.path.join(src, "go.sum")
            if which == "harness-web":
                sums = set()
                for m in ("", "chi", "echo", "fiber", "gin", "http"):
                    with open(os.path.join(REPO, m, "go.sum")) as f:
                        sums.update(l for l in f if l.strip())
                with open(sumf, "w") as f:
                    f.write("".join(sorted(sums)))
            else:
                shutil.copyfile(os.path.join(REPO, "go.sum"), sumf)
                g = subprocess.run([sys.executable, os.path.join(VERIF, "gen", "genlib.py"), os.path.join(src, "libgen.go")],
                                   capture_output=True, text=True)
                if g.returncode != 0:
                    raise Inconclusive("constructor library generation failed: " + g.stderr)
        outp = os.path.join(self.scratch, "bin-%s-%s%s" % (which, tags.replace(",", "_"), "-race" if race else ""))
        cmd = ["go", "build", "-tags", tags, "-o", outp]
        if race:
            cmd.insert(2, "-race")
        cmd.append(".")
        p = subprocess.run(cmd, cwd=src, env=goenv(), capture_output=True, text=True)
        if p.returncode != 0:
            raise Inconclusive("harness build failed:\n" + p.stdout + p.stderr)
        self._bins[key] = outp
        return outp


# -------------------------------------------------------------------- TLC
TLC_JAR = "/opt/veriftools/tla/tla2tools.jar"
CM_JAR = None


def _tlc_cmd(workers, metadir, cfg, module, extra=()):
    return ["tlc", "-workers", str(workers), "-metadir", metadir, "-config", cfg] + list(extra) + [module]


def tlc_env(heap="3g", tmp=None, **kw):
    e = dict(os.environ)
    e["JAVA_TOOL_OPTIONS"] = "-Xmx%s -Xss64m" % heap
    if tmp:     # TLC's own temporary directories go into the run's scratch directory (removed with it), not into /tmp
        e["JAVA_TOOL_OPTIONS"] += " -Djava.io.tmpdir=" + tmp
    e.update(kw)
    return e


RE_STATES = re.compile(r"(\d+) states generated, (\d+) distinct states found")


def write_cfg(path, spec, constants, invariants=(), properties=(), view=None, action_constraint=None,
              constraint=None, extra="", deadlock=False):
    with open(path, "w") as f:
        f.write("SPECIFICATION %s\n" % spec)
        if constants:
            f.write("CONSTANTS\n")
            for k, v in constants.items():
                if isinstance(v, str) and v.startswith("<- "):
                    f.write("  %s %s\n" % (k, v))
                else:
                    f.write("  %s = %s\n" % (k, v))
        if view:
            f.write("VIEW %s\n" % view)
        if invariants:
            f.write("INVARIANTS %s\n" % " ".join(invariants))
        if properties:
            f.write("PROPERTIES %s\n" % " ".join(properties))
        if action_constraint:
            f.write("ACTION_CONSTRAINT %s\n" % action_constraint)
        if constraint:
            f.write("CONSTRAINT %s\n" % constraint)
        f.write("CHECK_DEADLOCK %s\n" % ("TRUE" if deadlock else "FALSE"))
        f.write(extra)


def tla_set(xs):
    return "{" + ", ".join('"%s"' % x for x in xs) + "}"


def run_design(ctx, module, cfgname, constants, invariants=(), properties=(), view=None,
               action_constraint=None, constraint=None, workers=None, timeout=1800, heap="8g",
               on_line=None, tag="SCN", extra_args=(), simulate=False, spec="Spec", deadlock=False):
    """Run an exhaustive TLC design model in a scratch copy of spec/.  Lines printed as
    <<"TAG", "json">> are decoded and passed to on_line.  Returns (generated, distinct)."""
    d = ctx.sub("design-" + cfgname)
    for fn in os.listdir(SPEC):
        if fn.endswith(".tla"):
            shutil.copyfile(os.path.join(SPEC, fn), os.path.join(d, fn))
    cfg = os.path.join(d, cfgname + ".cfg")
    write_cfg(cfg, spec, constants, invariants, properties, view, action_constraint, constraint, deadlock=deadlock)
    cmd = _tlc_cmd(workers or min(NCPU, 8), os.path.join(d, "meta"), cfg, module + ".tla", extra_args)
    t0 = time.time()
    p = subprocess.Popen(cmd, cwd=d, env=tlc_env(heap, tmp=d), stdout=subprocess.PIPE, stderr=subprocess.STDOUT, text=True)
    gen = dist = None
    tail = []
    errlines = []
    prefix = '<<"%s", ' % tag
    err = False
    try:
        for line in p.stdout:
            if line.startswith(prefix):
                if on_line:
                    s = line.rstrip()[len(prefix):-2]
                    on_line(json.loads(json.loads(s)))
                continue
            tail.append(line)
            if len(tail) > 60:
                tail.pop(0)
            m = RE_STATES.search(line)
            if m:
                gen, dist = int(m.group(1)), int(m.group(2))
            if "Error:" in line or "is violated" in line or "Exception" in line:
                err = True
                errlines.append(line)
            if time.time() - t0 > timeout:
                p.kill()
                raise Inconclusive("TLC design run %s timed out" % cfgname)
    finally:
        p.wait()
    if simulate and not err and p.returncode == 0:
        m = re.search(r"(\d+) states checked", "".join(tail))
        gen = dist = int(m.group(1)) if m else 0
    if err or p.returncode != 0 or gen is None:
        raise Inconclusive("TLC design run %s failed (rc=%s):\n%s\n%s" % (cfgname, p.returncode, "".join(errlines), "".join(tail[-40:])))
    ctx.states += dist
    ctx.transitions += gen
    ctx.design_runs.append(dict(model=module, cfg=cfgname, constants={k: str(v) for k, v in constants.items()},
                                generated=gen, distinct=dist, invariants=list(invariants),
                                properties=list(properties), wall_s=round(time.time() - t0, 1)))
    shutil.rmtree(d, ignore_errors=True)
    return gen, dist


def _validate_shard(args):
    d, module, cfg, trace, timeout = args
    cmd = _tlc_cmd(1, os.path.join(d, "meta-" + os.path.basename(trace)), cfg, module + ".tla")
    try:
        p = subprocess.run(cmd, cwd=d, env=tlc_env("3g", tmp=d, VERIF_TRACE=trace), capture_output=True, text=True,
                           timeout=timeout)
    except subprocess.TimeoutExpired:
        return trace, None, "timeout"
    res = None
    for line in p.stdout.splitlines():
        if line.startswith('<<"RESULT", '):
            res = json.loads(json.loads(line[len('<<"RESULT", '):-2]))
    if res is None or p.returncode != 0:
        return trace, None, p.stdout[-3000:] + p.stderr[-1000:]
    return trace, res, None


def validate_traces(ctx, module, cfgname, constants, traces, timeout=1200):
    """Validate ndjson trace files with the trace spec `module` (Check etc. in constants).
    Returns list of (tracefile, result dict)."""
    d = ctx.sub("trace-" + cfgname)
    for fn in os.listdir(SPEC):
        if fn.endswith(".tla"):
            shutil.copyfile(os.path.join(SPEC, fn), os.path.join(d, fn))
    cfg = os.path.join(d, cfgname + ".cfg")
    write_cfg(cfg, "TraceSpec", constants)
    out = []
    with cf.ThreadPoolExecutor(max_workers=min(NCPU, 12)) as ex:
        for trace, res, err in ex.map(_validate_shard, [(d, module, cfg, t, timeout) for t in traces]):
            if res is None:
                raise Inconclusive("trace validation failed for %s:\n%s" % (trace, err))
            out.append((trace, res))
    return out


# ---------------------------------------------------------------- harness
def run_harness(ctx, binp, mode, args, scenarios, tracefile, timeout=600):
    """Feed scenarios (list of JSON-able objects) to the harness, write the trace file."""
    inp = "\n".join(json.dumps(s, separators=(",", ":")) for s in scenarios) + "\n"
    with open(tracefile, "w") as f:
        try:
            p = subprocess.run([binp, mode] + list(args), input=inp, stdout=f, stderr=subprocess.PIPE, text=True,
                               timeout=timeout)
        except subprocess.TimeoutExpired:
            raise Inconclusive("harness %s timed out" % mode)
    return p


def drop_partial_last_line(path):
    """A process that dies while writing leaves a truncated last line: remove it."""
    with open(path, "rb") as f:
        data = f.read()
    if not data:
        return
    cut = len(data)
    if not data.endswith(b"\n"):
        cut = data.rfind(b"\n") + 1
    else:
        last = data[data.rfind(b"\n", 0, len(data) - 1) + 1:]
        try:
            json.loads(last)
        except ValueError:
            cut = len(data) - len(last)
    if cut != len(data):
        with open(path, "wb") as f:
            f.write(data[:cut])


def shard(xs, n):
    return [xs[i:i + n] for i in range(0, len(xs), n)]


def index_runs(tracefile):
    """List of runs (one per reset event): each a list of (line number, text); runs[i].run = scenario number (1-based)
    as reported by the harness (a scenario may be run more than once)."""
    runs = []
    cur = None
    with open(tracefile) as f:
        for i, line in enumerate(f, 1):
            if '"ev":"reset"' in line:
                cur = RunLines()
                m = re.search(r'"run":(\d+)', line)
                cur.run = int(m.group(1)) if m else len(runs) + 1
                runs.append(cur)
            if cur is not None:
                cur.append((i, line))
    return runs


class RunLines(list):
    run = 0


def run_of_line(runs, lineno):
    for ri, r in enumerate(runs):
        if r and r[0][0] <= lineno <= r[-1][0]:
            return ri
    return None


# ------------------------------------------------------ findings / report
def load_known():
    p = os.path.join(VERIF, "known_findings.json")
    if not os.path.exists(p):
        return []
    return json.load(open(p)).get("findings", [])


def write_replay(pid, rec):
    os.makedirs(REPLAY, exist_ok=True)
    h = hashlib.sha1(json.dumps(rec, sort_keys=True).encode()).hexdigest()[:12]
    path = os.path.join(REPLAY, "%s-%s.json" % (pid, h))
    with open(path, "w") as f:
        json.dump(rec, f, indent=1)
    return path


def finish(ctx, rule, level="model_checking", extra_cov=None):
    """Classify violations, print VIOLATION / KNOWN-FINDING lines, write evidence, return exit code."""
    if os.path.isdir(REPLAY):          # replay files of earlier runs of this property are stale now
        for fn in os.listdir(REPLAY):
            if fn.startswith(ctx.pid + "-"):
                os.remove(os.path.join(REPLAY, fn))
    known = [k for k in load_known() if k.get("property") == ctx.pid and k.get("kind") == "known"]
    real, kf_hit = [], {}
    for v in ctx.viol:
        kf = v.get("kf") or "-"
        k = next((k for k in known if k.get("deviation") == kf), None) if kf != "-" else None
        if k is not None:
            kf_hit.setdefault(k["id"], (k, 0))
            kf_hit[k["id"]] = (k, kf_hit[k["id"]][1] + 1)
        else:
            real.append(v)
    for kid, (k, n) in sorted(kf_hit.items()):
        print("KNOWN-FINDING: property=%s %s [%s; %d occurrence(s) this run]" % (ctx.pid, k["what"], kid, n))
    if real:
        tab = {}
        for v in real:
            cid = ((v.get("scenario") or {}).get("cfg") or {}).get("cid", "-") if isinstance(v.get("scenario"), dict) else "-"
            key = (v.get("property"), v.get("guard"), cid)
            tab[key] = tab.get(key, 0) + 1
        print("violation summary (property, guard, configuration): count")
        for k in sorted(tab):
            print("   %-5s %-34s %-28s %d" % (k[0], k[1], k[2], tab[k]))
    seen = set()
    nrep = 0
    for v in real:
        cid = ((v.get("scenario") or {}).get("cfg") or {}).get("cid", "-") if isinstance(v.get("scenario"), dict) else "-"
        sig = (v.get("family"), v.get("guard"), cid)
        if sig in seen:
            continue
        seen.add(sig)
        if nrep < 40:
            path = write_replay(ctx.pid, v)
            print("VIOLATION property=%s replay=%s" % (ctx.pid, path))
            print("  guard=%s family=%s detail=%s" % (v.get("guard"), v.get("family"), json.dumps(v.get("event"))[:300]))
            nrep += 1
    cov = dict(states=max(ctx.states, 0), transitions=max(ctx.transitions, 0),
               traces_validated_against_impl=ctx.traces, evaluations=ctx.evals,
               distinct_nontrivial=len(ctx.distinct), rule=rule, samples=ctx.samples[:4],
               events_validated=ctx.events, design_runs=ctx.design_runs,
               known_findings_hit={k: n for k, (_, n) in kf_hit.items()},
               checker_cmd="./check %s --tier %s" % (ctx.pid, ctx.tier))
    if ctx.exhaustive:
        cov["exhaustive"] = True
        cov["exhaustive_spaces"] = ctx.exhaustive
    if ctx.notes:
        cov["notes"] = ctx.notes
    if extra_cov:
        cov.update(extra_cov)
    ev = dict(property_id=ctx.pid, tier=ctx.tier, seed=ctx.seed, level=level, coverage=cov,
              assumptions=ctx.assumptions, wall_s=round(time.time() - ctx.t0, 2), violations=len(real))
    os.makedirs(EVID, exist_ok=True)
    with open(os.path.join(EVID, ctx.pid + ".json"), "w") as f:
        json.dump(ev, f, indent=1)
    print("%s tier=%s seed=%d: %d traces, %d events, %d guard evaluations, %d distinct scenarios, "
          "design states=%d transitions=%d, violations=%d, known=%d, %.1fs" %
          (ctx.pid, ctx.tier, ctx.seed, ctx.traces, ctx.events, ctx.evals, len(ctx.distinct), ctx.states,
           ctx.transitions, len(real), sum(n for _, n in kf_hit.values()), time.time() - ctx.t0))
    return 1 if real else 0


def scen_key(s):
    return hashlib.sha1(json.dumps(s, sort_keys=True, separators=(",", ":")).encode()).hexdigest()


def run_family(ctx, family, scenarios, harness_mode, harness_args, trace_module, trace_consts,
               shard_size=4000, tags="verif", kf_of=None, on_trace=None, which="harness"):
    """scenarios -> harness -> traces -> TLC trace spec; violations appended to ctx.viol."""
    if not scenarios:
        return
    binp = ctx.harness_bin(which=which, tags=tags)
    d = ctx.sub("fam-" + family)
    shards = shard(scenarios, shard_size)
    traces = []

    def do(i):
        tf = os.path.join(d, "t%04d.ndjson" % i)
        p = run_harness(ctx, binp, harness_mode, harness_args, shards[i], tf)
        skip = 0
        restarts = 0
        while p.returncode in (2, 3) and harness_mode in ("container", "conc", "graph"):
            restarts += 1
            if restarts > 3:
                ctx.notes.append("%s shard %d: more than 3 crashed/hung scenarios, rest of the shard not run" % (family, i))
                p.returncode = 0
                break
            # the harness process died (2: Go runtime crash, e.g. a panic outside any call or a fatal error;
            # 3: goroutines hung and the run was aborted): the scenario that was running is marked, the rest
            # of the shard is run by a fresh process
            last = 0
            with open(tf) as f:
                for line in f:
                    if '"ev":"reset"' in line:
                        m = re.search(r'"run":(\d+)', line)
                        if m:
                            last = int(m.group(1))
            if last <= skip:
                raise Inconclusive("harness died without progress rc=%d: %s" % (p.returncode, p.stderr[-2000:]))
            drop_partial_last_line(tf)
            with open(tf, "a") as f:
                if p.returncode == 2:
                    f.write(json.dumps({"ev": "fatal", "th": "main", "rc": 2, "msg": p.stderr[:700] + " ... " + p.stderr[-300:]}) + "\n")
            skip = last
            if skip >= len(shards[i]):
                break
            tf2 = tf + ".part"
            p = run_harness(ctx, binp, harness_mode, list(harness_args) + ["-skip", str(skip)], shards[i], tf2)
            with open(tf, "a") as f, open(tf2) as g:
                shutil.copyfileobj(g, f)
            os.remove(tf2)
        if p.returncode != 0 and not (p.returncode in (2, 3) and harness_mode in ("container", "conc", "graph")):
            raise Inconclusive("harness failed rc=%d: %s" % (p.returncode, p.stderr[-2000:]))
        return tf

    with cf.ThreadPoolExecutor(max_workers=NCPU) as ex:
        traces = list(ex.map(do, range(len(shards))))
    if on_trace:
        for tf in traces:
            on_trace(tf)
    results = validate_traces(ctx, trace_module, family, trace_consts, traces)
    for si, (tf, res) in enumerate(results):
        ctx.events += res["lines"]
        ctx.evals += res["evals"]
        if res["viol"]:
            runs = index_runs(tf)
            for v in res["viol"]:
                tag, guard, line = v[0], v[1], v[2]
                kf = v[3] if len(v) > 3 else "-"
                ri = run_of_line(runs, line)
                sidx = runs[ri].run - 1 if ri is not None else None
                scen = shards[si][sidx] if sidx is not None and 0 <= sidx < len(shards[si]) else None
                evline = None
                if ri is not None:
                    for (ln, txt) in runs[ri]:
                        if ln == line:
                            evline = json.loads(txt)
                ctx.viol.append(dict(property=tag, family=family, guard=guard, kf=kf, scenario=scen, event=evline,
                                     harness_mode=harness_mode, harness_args=list(harness_args), which=which,
                                     trace_module=trace_module, trace_consts=trace_consts,
                                     trace=[json.loads(t) for _, t in runs[ri]][:200] if ri is not None else None))
    ctx.traces += len(scenarios)
    for s in scenarios:
        ctx.distinct.add(scen_key(s))
    if len(ctx.samples) < 4:
        tf = traces[0]
        runs = index_runs(tf)
        if runs:
            r = runs[min(len(runs) - 1, 3)]
            ctx.samples.append(dict(family=family, scenario=shards[0][min(len(runs) - 1, 3)],
                                    trace=[json.loads(t) for _, t in r][:12]))
    shutil.rmtree(d, ignore_errors=True)
