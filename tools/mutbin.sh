#!/bin/sh
# tools/mutbin.sh <seeded-id> <out-binary> : harness binary built against a scratch worktree of /repo with seeded/<id>/patch.diff applied
set -e
id=$1; out=$2; wt=/tmp/mw/bin-$id
export GOFLAGS=-mod=mod GOPROXY=off
mkdir -p /tmp/mw
git -C /repo worktree remove --force $wt 2>/dev/null || true
git -C /repo worktree add --detach -q $wt HEAD
git -C $wt apply --whitespace=nowarn /verif/seeded/$id/patch.diff
src=/tmp/mw/src-$id; rm -rf $src; cp -r /verif/harness $src
sed -i "s#=> /repo#=> $wt#" $src/go.mod
cp $wt/go.sum $src/go.sum
(cd $src && go build -tags verif -o $out .)
rm -rf $src
git -C /repo worktree remove --force $wt
