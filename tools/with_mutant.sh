#!/bin/sh
# tools/with_mutant.sh <seeded-id> <command...> : runs the command with VERIF_REPO pointing at a scratch worktree of
# /repo's HEAD that has seeded/<id>/patch.diff applied (and VERIF_EVIDENCE at a scratch directory); removes both afterwards
id=$1; shift
wt=/tmp/mw/with-$id-$$
mkdir -p /tmp/mw
git -C /repo worktree add --detach -q $wt HEAD || exit 2
git -C $wt apply --whitespace=nowarn /verif/seeded/$id/patch.diff || { git -C /repo worktree remove --force $wt; exit 2; }
VERIF_REPO=$wt VERIF_EVIDENCE=$wt.evid "$@"
rc=$?
git -C /repo worktree remove --force $wt
rm -rf $wt.evid
exit $rc
