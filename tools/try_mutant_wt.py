#!/usr/bin/env python3
"""tools/try_mutant_wt.py <seeded-dir> <Cnn> [<Cmm> ...]
Like try_mutant.py, but never touches /repo's working tree: a scratch worktree of /repo's HEAD is created under
/tmp/mw/<id>, the change (patch.diff) is applied there, the existing suite and the demonstration are run there, and the
quick checks run with VERIF_REPO pointing at it and VERIF_EVIDENCE at a scratch directory, so several changes can be
evaluated side by side and the committed evidence is never overwritten.  The worktree is removed afterwards.
Result: JSON on stdout (and <seeded-dir>/try.json)."""
import json
import os
import shutil
import subprocess
import sys
import time

ENV = dict(os.environ, GOFLAGS="-mod=mod", GOPROXY="off")
ENV.pop("GOSUMDB", None)
ENV.pop("GOTOOLCHAIN", None)


def sh(cmd, cwd, timeout=3600, env=None):
    p = subprocess.run(cmd, cwd=cwd, shell=True, capture_output=True, text=True, env=env or ENV, timeout=timeout)
    return p.returncode, p.stdout + p.stderr


def suite(repo):
    ok, out = True, []
    for m in ["", "chi", "echo", "fiber", "gin", "http"]:
        rc, o = sh("go build ./... && go test -vet=off -count=1 ./...", cwd=os.path.join(repo, m))
        ok = ok and rc == 0
        if rc != 0:
            out.append(o[-1500:])
    return ok, "\n".join(out)


def demo(repo, rel, src):
    dst = os.path.join(repo, rel)
    shutil.copyfile(src, dst)
    try:
        rc, o = sh("go test -vet=off -count=1 -run 'Demo|ZZ|Mutant|Verif' . 2>&1 | tail -30", cwd=os.path.dirname(dst), timeout=900)
        return o
    finally:
        os.remove(dst)


def main():
    d, props = os.path.abspath(sys.argv[1]), sys.argv[2:]
    sid = os.path.basename(d)
    rel = open(os.path.join(d, "demo_path.txt")).read().strip()
    demo_src = os.path.join(d, os.path.basename(rel))
    patch = os.path.join(d, "patch.diff")
    wt = "/tmp/mw/" + sid
    evid = "/tmp/mw/" + sid + ".evid"
    os.makedirs("/tmp/mw", exist_ok=True)
    sh("git worktree remove --force %s; git worktree prune" % wt, cwd="/repo")
    shutil.rmtree(wt, ignore_errors=True)
    rc, o = sh("git worktree add --detach -q %s HEAD" % wt, cwd="/repo")
    if rc != 0:
        print("cannot create worktree:", o)
        return 2
    res = {"id": sid, "demo": rel}
    try:
        o = demo(wt, rel, demo_src)
        res["demo_passes_without_change"] = bool(o.strip()) and o.strip().splitlines()[-1].startswith("ok")
        rc, o = sh("git apply --whitespace=nowarn %s" % patch, cwd=wt)
        if rc != 0:
            res["error"] = "patch does not apply: " + o[-300:]
            print(json.dumps(res, indent=1))
            return 2
        ok, o = suite(wt)
        res["suite_passes_with_change"] = ok
        if not ok:
            res["suite_output"] = o[-2000:]
        o = demo(wt, rel, demo_src)
        res["demo_fails_with_change"] = "FAIL" in o
        res["demo_with_tail"] = o[-500:]
        res["checks"] = {}
        env = dict(ENV, VERIF_REPO=wt, VERIF_EVIDENCE=evid)
        for p in props:
            t0 = time.time()
            rc, o = sh("./check %s --tier quick" % p, cwd=os.environ.get("VERIF_HOME", "/verif"), timeout=5400, env=env)
            lines = [l for l in o.splitlines() if l.startswith("VIOLATION") or l.startswith("   C") or l.startswith("INCONC") or l.startswith("KNOWN")]
            res["checks"][p] = dict(rc=rc, wall=round(time.time() - t0), lines=[l[:300] for l in lines[:14]])
            if rc not in (0, 1):
                res["checks"][p]["tail"] = o[-1500:]
    finally:
        sh("git worktree remove --force %s; git worktree prune" % wt, cwd="/repo")
        shutil.rmtree(wt, ignore_errors=True)
        shutil.rmtree(evid, ignore_errors=True)
    json.dump(res, open(os.path.join(d, "try.json"), "w"), indent=1)
    print(json.dumps(res, indent=1))
    return 0


if __name__ == "__main__":
    sys.exit(main())
