#!/bin/sh
# runs the repository's own test suite (all modules), tag off; prints FAIL lines only
export GOFLAGS=-mod=mod GOPROXY=off
rc=0
for m in "" chi echo fiber gin http; do
  (cd /repo/$m && go build ./... && go test -vet=off -count=1 ./... 2>&1 | grep -v "^ok\|no test files" ) && rc=1
done
echo "suite done rc=$rc (0 = no failing lines)"
