import json,sys,os
sys.path.insert(0,'/verif/lib')
import vlib, props
f=sys.argv[1]
d=json.load(open(f))
ctx=vlib.Ctx(d['property'],"quick",1)
tf=ctx.sub('vt')+'/t0000.ndjson'
open(tf,'w').write("\n".join(json.dumps(e) for e in d['trace'])+"\n")
res=vlib.validate_traces(ctx,d['trace_module'],'vt',d['trace_consts'],[tf])
print([ (t[-20:], r.get("viol")) for t,r in res])
ctx.cleanup()
