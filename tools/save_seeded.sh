#!/bin/sh
# tools/save_seeded.sh <worktree> <seeded-id> : copy an agent's change out of its scratch worktree and remove the worktree
set -e
wt=$1; id=$2; d=/verif/seeded/$id
mkdir -p $d
cp $wt/MUTANT.diff $d/patch.diff
[ -f $wt/MUTANT.md ] && cp $wt/MUTANT.md $d/agent_notes.md
demo=$(cd $wt && git status --porcelain | grep '^??' | awk '{print $2}' | grep '_test.go$' | head -1)
echo "$demo" > $d/demo_path.txt
cp $wt/$demo $d/
git -C /repo worktree remove --force $wt
git -C /repo worktree prune
ls $d; cat $d/demo_path.txt
