#!/usr/bin/env python3
"""mkprompt.py <Cnn> <tag>  -> creates worktree /tmp/wt/<tag>-<Cnn> and writes /root/agentprompts/<tag>-<Cnn>.txt"""
import json, os, sys, glob, subprocess
pid, tag = sys.argv[1], sys.argv[2]
prop = None
for l in open('/verif/properties.jsonl'):
    p = json.loads(l)
    if p['id'] == pid: prop = p
known = []
for d in sorted(glob.glob('/verif/seeded/*')):
    m = os.path.join(d, 'meta.json')
    if os.path.exists(m):
        j = json.load(open(m))
        if j.get('property') == pid: known.append(j.get('needs', '')[:400])
    else:
        base = os.path.basename(d)
        if base.split('-')[1][:3] == pid:
            n = os.path.join(d, 'agent_notes.md')
            if os.path.exists(n):
                t = open(n).read()
                known.append(t.split('\n')[0].lstrip('# ')[:300])
wt = '/tmp/wt/%s-%s' % (tag, pid)
if not os.path.exists(wt):
    subprocess.check_call(['git', '-C', '/repo', 'worktree', 'add', '--detach', '-q', wt, 'HEAD'])
txt = f"""You are helping to evaluate a verification suite for the Go dependency-injection library junioryono/godi (module github.com/junioryono/godi/v4). You get a scratch git worktree of the repository at {wt} (work ONLY there; never touch /repo or /verif, never read /verif). Shell environment for every go command: `export GOFLAGS=-mod=mod GOPROXY=off` (no network; toolchain and modules are cached). The root module plus the sub-modules chi, echo, fiber, gin, http each have their own go.mod.

TASK: write ONE realistic change to the library's (non-test) source that BREAKS the semantic property below while (a) everything still compiles (`go build ./...` in the root and each sub-module), (b) the ENTIRE existing test suite still passes unedited (`go test -vet=off -count=1 ./...` in the root module and in each of chi, echo, fiber, gin, http), and (c) the breakage needs something specific to manifest - a particular interleaving, a fault at a particular point, a multi-step sequence of operations, an unusual input form, or two cooperating sites that each look fine alone. NOT a change that ordinary use exposes at once. It should look like a plausible maintainer slip (refactoring, optimisation, harmonisation, mis-placed check), small (a few lines to ~30 lines), and must not touch any line containing `verifGate` or `verifEvent` or files named verif_*.go or the verifx/ directory (leave them exactly as they are). Do not edit existing tests.

THE PROPERTY (id {pid}):
title: {prop['title']}
statement: {prop['statement']}
quantified over: {prop['quantifier']['text']}
anchors: {json.dumps(prop['anchors'])}

MECHANISMS ALREADY USED by earlier changes for this property (yours must be a genuinely DIFFERENT mechanism / different code path / different trigger condition - do not repeat any of these):
""" + "\n".join("- " + k for k in known) + f"""

DELIVERABLES, all inside {wt}:
1. The source change applied in the worktree, and saved as `{wt}/MUTANT.diff` (`git diff > MUTANT.diff` - the diff must contain ONLY the library source change, not the demo test).
2. A demonstration test file, a NEW untracked file named `zz_demo_test.go` in the package directory it tests (root package `godi`, or e.g. `gin/zz_demo_test.go`, `internal/graph/zz_demo_test.go`), with test functions named `TestDemo...`, that PASSES on the unchanged source and FAILS deterministically (or with very high probability within a few seconds - loop if needed) with your change. Use only distinct top-level functions as constructors where possible. It must use only the public API (or package internals if in-package) and standard library / testify (already a dependency).
3. `{wt}/MUTANT.md`: the change, which clause of the property it breaks, exactly what it needs in order to manifest, why the existing tests do not notice.

VERIFY YOURSELF before finishing: (i) `git stash`-free procedure: run the demo with the change (fails), then `git apply -R MUTANT.diff`, run the demo (passes), then `git apply MUTANT.diff` again so the worktree ends WITH the change applied; (ii) full suite passes with the change in the root module and all five sub-modules (run each: `(cd {wt} && go test -vet=off -count=1 ./...)`, `(cd {wt}/gin && go test -vet=off -count=1 ./...)` etc.; temporarily move zz_demo_test.go away while running the suite, then put it back). If the suite fails with your change, pick another change. Spend your effort on finding a subtle, property-specific mechanism. Report at the end: one paragraph with the mechanism, the trigger, and the path of the demo file.
"""
open('/root/agentprompts/%s-%s.txt' % (tag, pid), 'w').write(txt)
print(wt, len(txt))
