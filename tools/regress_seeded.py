#!/usr/bin/env python3
"""tools/regress_seeded.py [ids...]
For every seeded change (seeded/<id>/meta.json, patch.diff) apply the patch to the repository under test
(VERIF_REPO, default /repo), run the quick check of each property named in caught_by, undo the patch, and record
whether a VIOLATION was raised.  Writes seeded/REGRESSION.json and prints one line per change."""
import json
import os
import re
import subprocess
import sys
import time

REPO = os.environ.get("VERIF_REPO", "/repo")
HERE = os.path.dirname(os.path.dirname(os.path.abspath(__file__)))


def sh(cmd, cwd=None, timeout=3600):
    p = subprocess.run(cmd, cwd=cwd, shell=True, capture_output=True, text=True, timeout=timeout)
    return p.returncode, p.stdout + p.stderr


def main():
    ids = sys.argv[1:] or sorted(d for d in os.listdir(os.path.join(HERE, "seeded")) if os.path.isfile(os.path.join(HERE, "seeded", d, "meta.json")))
    rc, o = sh("git status --porcelain", cwd=REPO)
    if o.strip():
        print("REFUSING: %s is not clean" % REPO)
        return 2
    res = {}
    for sid in ids:
        d = os.path.join(HERE, "seeded", sid)
        meta = json.load(open(os.path.join(d, "meta.json")))
        props = sorted(set(re.findall(r"\bC\d\d\b", " ".join(meta.get("caught_by", [])))))
        if not props:
            res[sid] = dict(skipped="no check claims it (see meta.json)")
            print(sid, "skipped")
            continue
        rc, o = sh("git apply --whitespace=nowarn %s" % os.path.join(d, "patch.diff"), cwd=REPO)
        if rc != 0:
            res[sid] = dict(error="patch does not apply: " + o[-200:])
            print(sid, "PATCH DOES NOT APPLY")
            continue
        r = {}
        try:
            for p in props:
                t0 = time.time()
                rc, o = sh("./check %s" % p, cwd=HERE, timeout=5400)
                guards = sorted(set(re.findall(r"^\s+C\d\d\s+(\S+)", o, re.M)))
                r[p] = dict(rc=rc, wall=int(time.time() - t0), guards=guards[:12])
        finally:
            sh("git checkout -- .", cwd=REPO)
        res[sid] = r
        print(sid, {p: (v["rc"], v["wall"]) for p, v in r.items()}, flush=True)
    out = os.path.join(HERE, "seeded", "REGRESSION.json")
    old = {}
    if os.path.exists(out):
        old = json.load(open(out))
    old.update(res)
    json.dump(old, open(out, "w"), indent=1, sort_keys=True)
    missed = [s for s, r in res.items() if isinstance(r, dict) and any(isinstance(v, dict) and v.get("rc") == 0 for v in r.values())]
    print("missed (some named check stayed silent):", missed)
    return 0


if __name__ == "__main__":
    sys.exit(main())
