#!/usr/bin/env python3
"""onefam.py <pid> <python-expr using props.* and ctx>  : run one family ad hoc, print violations (no evidence written to /verif)"""
import os, sys, json
os.environ.setdefault("VERIF_EVIDENCE", "/tmp/onefam-evid")
sys.path.insert(0, os.environ.get("VERIF_HOME", "/verif") + "/lib")
import vlib, props
from props import *
ctx = vlib.Ctx(sys.argv[1], os.environ.get("VERIF_TIER", "quick"), int(os.environ.get("VERIF_SEED", "1")))
try:
    exec(sys.argv[2])
    rc = vlib.finish(ctx, "adhoc")
    print("rc", rc)
finally:
    ctx.cleanup()
