#!/usr/bin/env python3
"""Regenerates the seeded-change table of DESIGN.md (between the SEEDED-TABLE markers) from seeded/*/meta.json."""
import glob, json, os
p = '/verif/DESIGN.md'
s = open(p).read()
rows = []
for d in sorted(glob.glob('/verif/seeded/*/meta.json')):
    m = json.load(open(d))
    sid = os.path.basename(os.path.dirname(d))
    needs = m.get('needs', '').replace('|', '/').replace('\n', ' ')
    cb = '; '.join(m.get('caught_by', [])) or '- (see strengthening)'
    ab = 'yes' if m.get('caught_before_strengthening') else 'no'
    st = m.get('strengthening', 'none').replace('|', '/').replace('\n', ' ')
    rows.append('| `%s` (%s) | %s | %s | %s | %s |' % (sid, m.get('property'), needs[:300], cb[:260], ab, st[:420]))
b, e = '<!-- SEEDED-TABLE-BEGIN -->\n', '<!-- SEEDED-TABLE-END -->'
i, j = s.index(b) + len(b), s.index(e)
open(p, 'w').write(s[:i] + '\n'.join(rows) + '\n' + s[j:])
print(len(rows), 'rows')
