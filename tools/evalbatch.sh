#!/bin/sh
# usage: evalbatch.sh <listfile>   (lines: <seeded-id> <Cnn> ...)   runs from a snapshot of /verif's HEAD
rm -rf /root/vsnap && mkdir -p /root/vsnap && (cd /verif && git archive HEAD | tar -x -C /root/vsnap)
(cd /root/vsnap && ./setup.sh >/dev/null 2>&1)
export VERIF_HOME=/root/vsnap
mkdir -p /root/mlogs
cd /verif
xargs -P 4 -L 1 sh -c '/root/vsnap/tools/try_mutant_wt.py /verif/seeded/$0 "$@" > /root/mlogs/$0.json 2>&1; echo "$0 done" >> /root/mlogs/summary.txt' < $1
echo ALLDONE >> /root/mlogs/summary.txt
