#!/usr/bin/env python3
"""tools/try_mutant.py <worktree-or-seeded-dir> <demo-relpath> <Cnn> [<Cmm> ...]
Applies <dir>/MUTANT.diff (or patch.diff) to /repo, confirms: the existing suite passes with it, the
demonstration fails with it and passes without it; then runs the quick checks of the named properties and
reports which raise a VIOLATION.  /repo is restored afterwards."""
import json
import os
import shutil
import subprocess
import sys
import time

REPO = "/repo"
ENV = dict(os.environ, GOFLAGS="-mod=mod", GOPROXY="off")


def sh(cmd, cwd=REPO, timeout=3600):
    p = subprocess.run(cmd, cwd=cwd, shell=True, capture_output=True, text=True, env=ENV, timeout=timeout)
    return p.returncode, p.stdout + p.stderr


def suite():
    ok = True
    out = []
    for m in ["", "chi", "echo", "fiber", "gin", "http"]:
        rc, o = sh("go build ./... && go test -vet=off -count=1 ./...", cwd=os.path.join(REPO, m))
        ok = ok and rc == 0
        if rc != 0:
            out.append(o[-1500:])
    return ok, "\n".join(out)


def demo(rel, src):
    dst = os.path.join(REPO, rel)
    shutil.copyfile(src, dst)
    try:
        pkgdir = os.path.dirname(dst)
        rc, o = sh("go test -vet=off -count=1 -run 'Demo|ZZ|Mutant|Verif' . 2>&1 | tail -30", cwd=pkgdir, timeout=900)
        rc2, o2 = sh("go test -vet=off -count=1 . 2>&1 | tail -5", cwd=pkgdir, timeout=900)
        return rc2, o + o2
    finally:
        os.remove(dst)


def main():
    d, rel, props = os.path.abspath(sys.argv[1]), sys.argv[2], sys.argv[3:]
    patch = os.path.join(d, "MUTANT.diff")
    if not os.path.exists(patch):
        patch = os.path.join(d, "patch.diff")
    demo_src = os.path.join(d, rel) if os.path.exists(os.path.join(d, rel)) else os.path.join(d, os.path.basename(rel))
    rc, o = sh("git status --porcelain")
    if o.strip():
        print("REFUSING: /repo is not clean:\n" + o)
        return 2
    res = {"patch": patch, "demo": rel}
    try:
        rc, o = demo(rel, demo_src)
        res["demo_passes_without_change"] = "ok" in o.splitlines()[-1] if o.strip() else False
        res["demo_without_tail"] = o[-300:]
        rc, o = sh("git apply --whitespace=nowarn %s" % patch)
        if rc != 0:
            print("patch does not apply:", o)
            return 2
        ok, o = suite()
        res["suite_passes_with_change"] = ok
        if not ok:
            res["suite_output"] = o[-2000:]
        rc, o = demo(rel, demo_src)
        res["demo_fails_with_change"] = "FAIL" in o
        res["demo_with_tail"] = o[-600:]
        res["checks"] = {}
        for p in props:
            t0 = time.time()
            rc, o = sh("./check %s --tier quick" % p, cwd="/verif", timeout=3600)
            lines = [l for l in o.splitlines() if l.startswith("VIOLATION") or l.startswith("   C") or l.startswith("INCONC") or l.startswith("KNOWN")]
            res["checks"][p] = dict(rc=rc, wall=round(time.time() - t0), lines=lines[:14])
    finally:
        sh("git checkout -- . && git clean -fdq -- . ':!verifx'")
    print(json.dumps(res, indent=1))
    return 0


if __name__ == "__main__":
    sys.exit(main())
