#!/usr/bin/env python3
"""Regenerates MANIFEST.json from the table below (run after adding / changing a check)."""
import json
import os

ROOT = os.path.join(os.path.dirname(os.path.abspath(__file__)), "..")
props = [json.loads(l) for l in open(os.path.join(ROOT, "properties.jsonl"))]

GRAPH = "DepGraph.tla (reference digraph) model-checked by TLC; every transition of its state graph (also with the last answered graph in the fingerprint: answer / deferred change / answer sequences), all digraphs <=4 nodes and all 3-node digraphs with repeated edges replayed on the real graph component; every query compared by the trace specification DepGraphTrace"
CONT = "Container.tla (state, Apply, property-tagged guards) with the reference semantics of ContainerMC model-checked by TLC (all guards + state invariants over all histories within the bounds); every transition of the history model and every configuration of the factored configuration space (ContainerSweep) executed on the real container; every recorded event validated by TLC against ContainerTrace with Check={this property}; long random walks of the history model (TLC simulation); staged builds and rebuilds after removals; batteries of API abuse / re-entrant and abnormally ending user code with a table of expected outcomes in the specification"

CONC = "ScopeConc.tla (the concurrent protocol of provider and scopes, one action per critical section, threads as procedure stacks, context watchers) model-checked by TLC for 2-3 threads over all listed operation mixes (no double close, single scoped instance, quiescent accounting, children before parents, scopes before singletons, release, no deadlock); every gate-level transition emitted as a schedule and replayed on the real container by a cooperative scheduler built on the verif hook gates; random k-goroutine programs with real parallelism; all traces validated by TLC against ConcTrace; three scope levels (s1 - s2 - s3); the lock-free lookup and the locked claim of a scoped construction as separate steps; free-running storms from a spin barrier (first resolutions in one scope, the same constructors in many scopes, Close from many goroutines) validated by summary events"

REG = "Registry.tla (live descriptor sequence, snapshots, items incl. colliding multi-output and invalid Add calls) model-checked by TLC (atomic add, one registration per identity, stable snapshots, module transparency); every transition of RegistryMC replayed on a real collection: full query vector after every call, constructors run and resolvability matrix after every Build, earlier providers re-probed after every later edit; validated by TLC against RegistryTrace"

CHECKS = {
    "C01": (CONT, "3.3, 6 (C01)"), "C02": (CONT + "; concurrent half: " + CONC, "3.3, 3.4, 6 (C02)"), "C03": (CONT + "; random concurrent programs validated against ConcTrace (no transient reaches two constructor invocations)", "3.3, 6 (C03)"),
    "C04": (CONT + "; function-value kinds (closure, method value, generic instantiation, reflect.MakeFunc) as an extra configuration family", "3.3, 6 (C04)"),
    "C05": (GRAPH + " (verdict + reported path); " + CONT, "3.1, 3.3, 6 (C05)"),
    "C06": (GRAPH + " (topological order); " + CONT + "; rebuilds and permuted registration order compared inside the trace spec (verdict + wiring signature)", "3.1, 3.3, 6 (C06)"),
    "C07": (CONT, "3.3, 6 (C07)"), "C08": (CONT, "3.3, 6 (C08)"),
    "C10": (CONT + "; fault position enumerated over constructor invocations of Build / CreateScope / Resolve, close-error subsets", "3.3, 6 (C10)"),
    "C11": (CONT + "; concurrent half: " + CONC, "3.3, 3.4, 6 (C11)"), "C12": (CONT + "; all listed subsets of failing Close methods, repeated closes, cancellation", "3.3, 6 (C12)"),
    "C13": (CONT + "; concurrent half: " + CONC, "3.3, 3.4, 6 (C13)"), "C15": (CONT + "; fault kind error / panic / typed nil at every listed position", "3.3, 6 (C15)"),
    "C18": (CONT + "; built-ins positional and as parameter-object fields in all three lifetimes over root/child/grandchild/sibling scopes; reserved types in every output position, alone and as group members, rejected (RegistryMC items c1-c8); scope contexts carry the deadline / cancellation of the context they must be derived from (given, derived from the parent scope, or none)", "3.2, 3.3, 6 (C18)"),
    "C19": (GRAPH, "3.1, 6 (C19)"),
    "C17": (REG + "; deeper add / remove / re-add / build histories over the multi-output and alias items; the container history model over registration sets with outputs removed before Build (removed outputs not found, dead registrations and removed named initializers never run)", "3.2, 3.3, 6 (C17)"),
    "C16": ("Middleware.tla (per-request life cycle: one scope per request, callbacks in configuration order all seeing that scope, error handler instead of handler, Handle resolving before calling, panic swallowed iff recovery, scope closed exactly once) with the reference life cycle of MiddlewareMC model-checked by TLC over the whole configuration space and all interleavings of 1-3 concurrent requests; every configuration executed on the real net/http, chi, gin, echo and fiber integrations (harness-web); every callback / error handler / scope close / scoped-instance close recorded and validated by TLC against MiddlewareTrace", "3.5, 6 (C16)"),
    "C09": (CONC + "; data races: the same programs under Go's race detector with no recorder installed", "3.4, 6 (C09)"),
    "C14": (CONT + "; quiescent observations (goroutine count, weak-pointer reachability of closed scopes and their instances after GC, context state) validated against the specification state; N = 10..1500 create/use/close cycles; scope objects of refused creations end with a cancelled context; " + CONC, "3.3, 3.4, 6 (C14)"),
    "C20": (REG + "; module trees (leaves + module-name chains) applied through AddModules and, as direct calls, to a twin collection", "3.2, 6 (C20)"),
}
NOTE = "bounded exploration (constants in the evidence file: design_runs); the Go harness, its recorder and TLC are trusted; sequential histories only unless stated"

m = {"version": 1, "setup_cmd": "./setup.sh",
     "hooks": {"guard": "verif", "enable": "go build -tags verif (harness module, replace github.com/junioryono/godi/v4 => /repo)",
               "baseline_off_cmd": "for m in . chi echo fiber gin http; do (cd /repo/$m && GOFLAGS=-mod=mod GOPROXY=off go test -vet=off -count=1 -timeout 25m ./...) || exit 1; done",
               "source_commits": ["035bab5", "03d21fb", "6a20b54", "775a279"], "add_only": True},
     "engines": [
         {"name": "tlc-design", "path": "spec/*MC.tla spec/ContainerSweep.tla", "kind_free_text": "exhaustive TLC runs of the TLA+ design models (properties as invariants / action properties); they also emit the replayable scenarios"},
         {"name": "replay-harness-web", "path": "harness-web/", "kind_free_text": "Go harness executing request scenarios on the five web integrations built from /repo's working tree"},
         {"name": "replay-harness", "path": "harness/", "kind_free_text": "Go harness executing scenarios against godi built from /repo's working tree (-tags verif), recording ndjson traces"},
         {"name": "tlc-trace", "path": "spec/*Trace.tla", "kind_free_text": "TLC trace validation: every recorded event is applied to the specification state and every property-tagged guard evaluated"}],
     "checks": [], "not_applicable": [],
     "notes": "DESIGN.md describes the approach; known_findings.json lists fixed defects (fix: commits in /repo) and known findings."}
for p in props:
    pid = p["id"]
    if pid in CHECKS:
        text, ref = CHECKS[pid]
        m["checks"].append({
            "property_id": pid, "quick_cmd": "./check %s --tier quick" % pid, "thorough_cmd": "./check %s --tier thorough" % pid,
            "evidence_file": "evidence/%s.json" % pid, "replay_cmd_template": "./check %s --replay {path}" % pid,
            "engine": "tlc-design+replay-harness+tlc-trace",
            "level_claimed": {"category": "model_checking", "text": text, "design_ref": "DESIGN.md " + ref},
            "level_note": NOTE,
            "technique": "explicit TLA+ specification; TLC exhaustive model checking of the design model; spec->code replay of every model transition and code->spec TLC trace validation"})
    else:
        m["not_applicable"].append({"property_id": pid, "reason": "check under construction in this round (DESIGN.md section 7 build order); not claimed yet"})
json.dump(m, open(os.path.join(ROOT, "MANIFEST.json"), "w"), indent=1)
print("checks:", [c["property_id"] for c in m["checks"]])
