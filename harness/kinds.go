package main

import (
	"context"
	"fmt"
	"reflect"

	godi "github.com/junioryono/godi/v4"
)

// Function-value kinds for C04: registrations realised by closures of one factory, method values
// of one method, instantiations of one generic function and reflect.MakeFunc functions.  These
// share code pointers, which is exactly what the property quantifies over; they are used ONLY as
// the dimension under test (the generic library consists of distinct top-level functions).

//go:noinline
func closureFactory(slot int, tag string) any {
	switch slot {
	case 0:
		return func() (*S0, error) { return mk0(tag, true) }
	case 1:
		return func() (*S1, error) { return mk1(tag, true) }
	case 2:
		return func() (*S2, error) { return mk2(tag, true) }
	}
	return func() (*S3, error) { return mk3(tag, true) }
}

// closureDepFactory: closures of ONE function literal per (slot, dependency) pair: registrations using the same pair
// share the code pointer (and therefore the analysis cache entry) but carry their own tag
func closureDepFactory(slot, dep int, tag string) any {
	switch slot*4 + dep {
	case 0:
		return func(x *S0) (*S0, error) { return mk0(tag, true, argInst(x)) }
	case 1:
		return func(x *S1) (*S0, error) { return mk0(tag, true, argInst(x)) }
	case 2:
		return func(x *S2) (*S0, error) { return mk0(tag, true, argInst(x)) }
	case 3:
		return func(x *S3) (*S0, error) { return mk0(tag, true, argInst(x)) }
	case 4:
		return func(x *S0) (*S1, error) { return mk1(tag, true, argInst(x)) }
	case 5:
		return func(x *S1) (*S1, error) { return mk1(tag, true, argInst(x)) }
	case 6:
		return func(x *S2) (*S1, error) { return mk1(tag, true, argInst(x)) }
	case 7:
		return func(x *S3) (*S1, error) { return mk1(tag, true, argInst(x)) }
	case 8:
		return func(x *S0) (*S2, error) { return mk2(tag, true, argInst(x)) }
	case 9:
		return func(x *S1) (*S2, error) { return mk2(tag, true, argInst(x)) }
	case 10:
		return func(x *S2) (*S2, error) { return mk2(tag, true, argInst(x)) }
	case 11:
		return func(x *S3) (*S2, error) { return mk2(tag, true, argInst(x)) }
	case 12:
		return func(x *S0) (*S3, error) { return mk3(tag, true, argInst(x)) }
	case 13:
		return func(x *S1) (*S3, error) { return mk3(tag, true, argInst(x)) }
	case 14:
		return func(x *S2) (*S3, error) { return mk3(tag, true, argInst(x)) }
	case 15:
		return func(x *S3) (*S3, error) { return mk3(tag, true, argInst(x)) }
	}
	return nil
}

type ctorObj struct{ tag string }

func (c *ctorObj) New0() (*S0, error) { return mk0(c.tag, true) }
func (c *ctorObj) New1() (*S1, error) { return mk1(c.tag, true) }
func (c *ctorObj) New2() (*S2, error) { return mk2(c.tag, true) }
func (c *ctorObj) New3() (*S3, error) { return mk3(c.tag, true) }

type tagger interface{ tag() string }
type genTagA struct{}
type genTagB struct{}
type genTagC struct{}

func (genTagA) tag() string { return "a" }
func (genTagB) tag() string { return "b" }
func (genTagC) tag() string { return "c" }

var genTags = map[string]string{}

func genericCtor0[T tagger]() (*S0, error) { var t T; return mk0(genTags["0"+t.tag()], true) }
func genericCtor1[T tagger]() (*S1, error) { var t T; return mk1(genTags["1"+t.tag()], true) }

func kindValue(r *RegCfg) (any, error) {
	tag := "K_" + r.Kind + "_" + r.ID
	R.fnReg[tag] = r.ID
	switch r.Kind {
	case "reentrant":
		// a constructor that USES the container it is handed: during its own construction it opens a child scope on the
		// injected Scope and asks it for every singleton type (a start-up warm-up).  Singletons that are not built yet
		// are refused (ErrSingletonNotInitialized); nothing is constructed on behalf of this nested use.
		if len(r.Params) != 3 || r.Params[0].B != "ctx" {
			return nil, fmt.Errorf("reg %s: reentrant kind takes the three built-ins", r.ID)
		}
		slot := r.Slot
		return func(c context.Context, sc godi.Scope, p godi.Provider) (*S0, error) {
			args := []argRec{argCtx(c), argScope(sc), argProv(p)}
			if child, err := sc.CreateScope(nil); err == nil {
				for _, t := range typS {
					child.Get(t)
				}
				child.Close()
			}
			_ = slot
			return mk0(tag, true, args...)
		}, nil
	case "closure":
		if len(r.Params) == 1 {
			if d, ok := slotOfType(r.Params[0].T); ok && r.Params[0].K == "-" && r.Params[0].G == "-" && !r.Params[0].Opt && r.Params[0].B == "-" {
				return closureDepFactory(r.Slot, d, tag), nil
			}
			return nil, fmt.Errorf("reg %s: closure kind supports one plain dependency", r.ID)
		}
		return closureFactory(r.Slot, tag), nil
	case "method":
		o := &ctorObj{tag}
		switch r.Slot {
		case 0:
			return o.New0, nil
		case 1:
			return o.New1, nil
		case 2:
			return o.New2, nil
		}
		return o.New3, nil
	case "generic":
		genTags[fmt.Sprintf("%d%s", r.Slot, r.Var)] = tag
		switch fmt.Sprintf("%d%s", r.Slot, r.Var) {
		case "0a":
			return genericCtor0[genTagA], nil
		case "0b":
			return genericCtor0[genTagB], nil
		case "0c":
			return genericCtor0[genTagC], nil
		case "1a":
			return genericCtor1[genTagA], nil
		case "1b":
			return genericCtor1[genTagB], nil
		}
		return nil, fmt.Errorf("no generic instantiation for slot %d var %s", r.Slot, r.Var)
	case "makefunc":
		ft := reflect.TypeOf(closureFactory(r.Slot, "")).(reflect.Type)
		slot := r.Slot
		f := reflect.MakeFunc(ft, func([]reflect.Value) []reflect.Value {
			v, err := mkN(slot, tag, true, nil)
			out := reflect.New(ft.Out(0)).Elem()
			if v != nil {
				out = reflect.ValueOf(v)
			}
			ev := reflect.Zero(ft.Out(1))
			if err != nil {
				ev = reflect.ValueOf(&err).Elem()
			}
			return []reflect.Value{out, ev}
		})
		return f.Interface(), nil
	}
	return nil, fmt.Errorf("unknown function-value kind %q", r.Kind)
}
