package main

import (
	"bufio"
	"context"
	"encoding/json"
	"errors"
	"flag"
	"fmt"
	"os"
	"reflect"
	"runtime"
	"runtime/debug"
	"strconv"
	"strings"
	"sync"
	"sync/atomic"
	"time"

	godi "github.com/junioryono/godi/v4"
)

// ---------------------------------------------------------------- service types

type Inst struct {
	ID  int
	Reg string // registration id that produced it
	Run int    // scenario it belongs to: late Close calls of an earlier scenario are not recorded
}

type S0 struct{ Inst }
type S1 struct{ Inst }
type S2 struct{ Inst }
type S3 struct{ Inst } // not disposable

func (s *S0) Close() error {
	if s == nil {
		return nil // a typed nil that the container tracked as disposable
	}
	return recClose(s.ID, s.Run)
}
func (s *S1) Close() error {
	if s == nil {
		return nil // a typed nil that the container tracked as disposable
	}
	return recClose(s.ID, s.Run)
}
func (s *S2) Close() error {
	if s == nil {
		return nil // a typed nil that the container tracked as disposable
	}
	return recClose(s.ID, s.Run)
}

// W is a service type that is registered BY VALUE (instance values that are not pointers)
type W struct {
	ID  int
	Reg string
}

var typW = reflect.TypeOf(W{})

type I0 interface{ Tag0() int }
type I1 interface{ Tag1() int }

func (s *S0) Tag0() int { return s.ID }
func (s *S1) Tag0() int { return s.ID }
func (s *S2) Tag0() int { return s.ID }
func (s *S3) Tag0() int { return s.ID }
func (s *S0) Tag1() int { return s.ID }
func (s *S1) Tag1() int { return s.ID }
func (s *S2) Tag1() int { return s.ID }
func (s *S3) Tag1() int { return s.ID }

var (
	typS        = []reflect.Type{reflect.TypeOf((*S0)(nil)), reflect.TypeOf((*S1)(nil)), reflect.TypeOf((*S2)(nil)), reflect.TypeOf((*S3)(nil))}
	typI0       = reflect.TypeOf((*I0)(nil)).Elem()
	typI1       = reflect.TypeOf((*I1)(nil)).Elem()
	typCtx      = reflect.TypeOf((*context.Context)(nil)).Elem()
	typScope    = reflect.TypeOf((*godi.Scope)(nil)).Elem()
	typProvider = reflect.TypeOf((*godi.Provider)(nil)).Elem()
)

func typeByName(n string) reflect.Type {
	switch n {
	case "S0", "S1", "S2", "S3":
		return typS[n[1]-'0']
	case "I0":
		return typI0
	case "I1":
		return typI1
	case "ctx":
		return typCtx
	case "scope":
		return typScope
	case "prov":
		return typProvider
	case "W":
		return typW
	case "V":
		return typVoid // functions without result are registered under struct{}
	}
	return nil
}

var typVoid = reflect.TypeOf(struct{}{})

func nameOfType(t reflect.Type) string {
	for i, s := range typS {
		if t == s {
			return "S" + strconv.Itoa(i)
		}
	}
	switch t {
	case typI0:
		return "I0"
	case typI1:
		return "I1"
	case typCtx:
		return "ctx"
	case typScope:
		return "scope"
	case typProvider:
		return "prov"
	}
	if t == nil {
		return "nil"
	}
	return "?" + t.String()
}

func newS(slot, id int, reg string) any {
	var v any
	switch slot {
	case 0:
		v = &S0{Inst{id, reg, runNo}}
	case 1:
		v = &S1{Inst{id, reg, runNo}}
	case 2:
		v = &S2{Inst{id, reg, runNo}}
	default:
		v = &S3{Inst{id, reg, runNo}}
	}
	if R == nil || !R.bare {
		live.trackInst(id, v)
	}
	return v
}

// idOf returns the instance id of a harness value, 0 for nil pointers, -1 for foreign values.
func idOf(v any) int {
	switch x := v.(type) {
	case *S0:
		if x == nil {
			return 0
		}
		return x.ID
	case *S1:
		if x == nil {
			return 0
		}
		return x.ID
	case *S2:
		if x == nil {
			return 0
		}
		return x.ID
	case *S3:
		if x == nil {
			return 0
		}
		return x.ID
	case W:
		return x.ID
	case nil:
		return 0
	}
	return -1
}

// ---------------------------------------------------------------- configuration

type Param struct {
	T   string `json:"t"`
	K   string `json:"k"`
	G   string `json:"g"`
	Opt bool   `json:"opt"`
	B   string `json:"b"`
	Emb bool   `json:"emb,omitempty"` // declared as an embedded (anonymous) field of the parameter object
}

type RegCfg struct {
	ID     string   `json:"id"`
	Life   string   `json:"life"`
	Slot   int      `json:"slot"`
	Slot2  int      `json:"slot2"`
	Var    string   `json:"var"`
	Shape  string   `json:"shape"`
	Po     bool     `json:"po"`
	Name   string   `json:"name"`
	Group  string   `json:"group"`
	As     []string `json:"as"`
	Params []Param  `json:"params"`
	Kind   string   `json:"kind,omitempty"` // function-value kind: "", closure, method, generic, makefunc
	Rm     []int    `json:"rm,omitempty"`   // outputs removed from the collection again right after the Add call
}

// outIdent is the (type, key) identity of output o (1-based) of a registration, for the forms whose outputs
// are plain or named services (group members cannot be removed individually)
func outIdent(r *RegCfg, o int) (reflect.Type, any, bool) {
	name := func() any {
		if r.Name != "-" && r.Name != "" {
			return r.Name
		}
		return nil
	}
	switch r.Shape {
	case "ifacerr":
		if r.Group != "-" && r.Group != "" {
			return nil, nil, false
		}
		return typI0, name(), o == 1
	case "instv":
		if r.Group != "-" && r.Group != "" {
			return nil, nil, false
		}
		return typW, name(), o == 1
	case "ctor", "ctorerr", "inst":
		if r.Group != "-" && r.Group != "" {
			return nil, nil, false
		}
		if len(r.As) > 0 {
			if o < 1 || o > len(r.As) {
				return nil, nil, false
			}
			return typeByName(r.As[o-1]), name(), true
		}
		return typS[r.Slot], name(), o == 1
	case "multi", "multierr":
		if r.Group != "-" && r.Group != "" {
			return nil, nil, false
		}
		if o == 1 {
			return typS[r.Slot], name(), true
		}
		return typS[r.Slot2], nil, o == 2
	case "outkn":
		if o == 1 {
			return typS[r.Slot], nil, true
		}
		return typS[r.Slot2], "k", o == 2
	case "outkg":
		return typS[r.Slot], nil, o == 1
	case "init", "initerr":
		if n := name(); n != nil {
			return typVoid, n, o == 1 // a named initialization function is the keyed service (struct{}, name)
		}
	}
	return nil, nil, false
}

// descCount: how many descriptors the Add call of r creates
func descCount(r *RegCfg) int {
	switch r.Shape {
	case "multi", "multierr", "outkn", "outkg":
		return 2
	}
	if len(r.As) > 0 {
		return len(r.As)
	}
	return 1
}

// applyRemovals takes the listed outputs of r out of the collection again
func applyRemovals(c godi.Collection, r *RegCfg) error {
	for _, o := range r.Rm {
		t, k, ok := outIdent(r, o)
		if !ok {
			return fmt.Errorf("reg %s: output %d cannot be removed", r.ID, o)
		}
		if k == nil {
			c.Remove(t)
		} else {
			c.RemoveKeyed(t, k)
		}
	}
	return nil
}

type Fault struct {
	Reg string `json:"reg"`
	At  int    `json:"at"`
	How string `json:"how"`
}

type Cfg struct {
	Cid      string   `json:"cid"`
	Regs     []RegCfg `json:"regs"`
	Faults   []Fault  `json:"faults"`
	CloseErr []string `json:"closeerr"`
}

type Op struct {
	Op   string `json:"op"`
	Sc   string `json:"sc"`
	Name string `json:"name"`
	Ctx  string `json:"ctx"`
	T    string `json:"t"`
	K    string `json:"k"`
	G    string `json:"g"`
}

type Scenario struct {
	Cfg Cfg  `json:"cfg"`
	Ops []Op `json:"ops"`
}

func slotOfType(t string) (int, bool) {
	if len(t) == 2 && t[0] == 'S' {
		return int(t[1] - '0'), true
	}
	return 0, false
}

// fnName computes the library function implementing a registration.
func fnName(r *RegCfg) (string, error) {
	allPlain := true
	for _, p := range r.Params {
		if p.B != "-" || p.K != "-" || p.G != "-" || p.Opt {
			allPlain = false
		}
	}
	posSig := func(maxn int) (string, error) {
		if !allPlain || len(r.Params) > maxn {
			return "", fmt.Errorf("reg %s: parameters outside the positional menu", r.ID)
		}
		var sb strings.Builder
		prev := -1
		for _, p := range r.Params {
			s, ok := slotOfType(p.T)
			if !ok || s < prev {
				return "", fmt.Errorf("reg %s: positional parameters must be non-decreasing slots", r.ID)
			}
			prev = s
			sb.WriteString(strconv.Itoa(s))
		}
		return sb.String(), nil
	}
	// dependencies on interface types only: I0, I1 or both (in that order)
	if (r.Shape == "ctor" || r.Shape == "ctorerr") && len(r.Params) > 0 {
		x := ""
		for _, p := range r.Params {
			if (p.T == "I0" || p.T == "I1") && p.B == "-" && p.K == "-" && p.G == "-" && !p.Opt && !p.Emb {
				x += p.T
			} else {
				x = ""
				break
			}
		}
		if x == "I0" || x == "I1" || x == "I0I1" {
			if r.Po {
				return fmt.Sprintf("C%d%s_pio_%s", r.Slot, r.Var, x), nil
			}
			return fmt.Sprintf("C%d%s_pi_%s", r.Slot, r.Var, x), nil
		}
	}
	if (r.Shape == "ctor" || r.Shape == "ctorerr") && r.Po && len(r.Params) == 1 && r.Params[0].T == "ctx" && r.Params[0].K == "k" && r.Params[0].B == "-" {
		return fmt.Sprintf("C%d%s_bk", r.Slot, r.Var), nil
	}
	isB3 := len(r.Params) >= 3 && r.Params[0].B == "ctx" && r.Params[1].B == "scope" && r.Params[2].B == "prov"
	switch r.Shape {
	case "ctor", "ctorerr":
		base := fmt.Sprintf("C%d%s", r.Slot, r.Var)
		if isB3 && len(r.Params) == 3 {
			if r.Po {
				return base + "_bo", nil
			}
			return base + "_bp", nil
		}
		if isB3 && len(r.Params) == 4 && !r.Po {
			d := r.Params[3]
			s, ok := slotOfType(d.T)
			if ok && d.B == "-" && d.K == "-" && d.G == "-" && !d.Opt {
				return fmt.Sprintf("%s_bp_%d", base, s), nil
			}
		}
		if r.Po {
			var sb strings.Builder
			for _, p := range r.Params {
				s, ok := slotOfType(p.T)
				if !ok || p.B != "-" {
					return "", fmt.Errorf("reg %s: bad parameter-object field", r.ID)
				}
				f := "p"
				switch {
				case p.Emb:
					f = "e"
				case p.G != "-":
					f = "g"
				case p.K != "-" && p.Opt:
					f = "q"
				case p.K != "-":
					f = "k"
				case p.Opt:
					f = "o"
				}
				sb.WriteString(strconv.Itoa(s) + f)
			}
			if r.Kind == "ptr" { // the parameter object is taken by pointer
				return base + "_pp_" + sb.String(), nil
			}
			return base + "_po_" + sb.String(), nil
		}
		sig, err := posSig(3)
		if err != nil {
			return "", err
		}
		if r.Shape == "ctor" {
			return base + "_pn_" + sig, nil
		}
		return base + "_pe_" + sig, nil
	case "ifacerr":
		sig, err := posSig(1)
		if err != nil {
			return "", err
		}
		return fmt.Sprintf("F%d%s_ie_%s", r.Slot, r.Var, sig), nil
	case "multi", "multierr", "outkn", "outkg":
		sig, err := posSig(1)
		if err != nil {
			return "", err
		}
		switch r.Shape {
		case "multi":
			return fmt.Sprintf("M%d%d%s_pn_%s", r.Slot, r.Slot2, r.Var, sig), nil
		case "multierr":
			return fmt.Sprintf("M%d%d%s_pe_%s", r.Slot, r.Slot2, r.Var, sig), nil
		case "outkn":
			if r.Kind == "ptr" { // the result object is returned by pointer
				return fmt.Sprintf("O%d%d%s_knp_%s", r.Slot, r.Slot2, r.Var, sig), nil
			}
			return fmt.Sprintf("O%d%d%s_kn_%s", r.Slot, r.Slot2, r.Var, sig), nil
		}
		if r.Kind == "ptr" {
			return fmt.Sprintf("O%d%d%s_kgp_%s", r.Slot, r.Slot2, r.Var, sig), nil
		}
		return fmt.Sprintf("O%d%d%s_kg_%s", r.Slot, r.Slot2, r.Var, sig), nil
	case "init", "initerr":
		if isB3 && len(r.Params) == 3 {
			return "N" + r.Var + "_ib", nil
		}
		sig, err := posSig(2)
		if err != nil {
			return "", err
		}
		if r.Shape == "init" {
			return "N" + r.Var + "_iv_" + sig, nil
		}
		return "N" + r.Var + "_ie_" + sig, nil
	}
	return "", fmt.Errorf("reg %s: unknown shape %q", r.ID, r.Shape)
}

// ---------------------------------------------------------------- recorder

var ctorLib = map[string]any{}
var pairSlots = map[string][2]int{}

var errFault = errors.New("verif: scripted constructor failure")
var errCloseFault = errors.New("verif: scripted close failure")

type panicVal struct{ tag string }

var faultPanic = &panicVal{"verif: scripted constructor panic"}

type argRec struct {
	K   string `json:"k"`
	Ids []int  `json:"ids"`
	S   string `json:"s"`
}

type opCtx struct {
	op     string
	scope  string // scope name constructor events of this call are attributed to
	parent string // create: the parent scope ("root" for the provider)
}

func (c *opCtx) scopeOr(d string) string {
	if c == nil {
		return d
	}
	return c.scope
}

// run is the state of one scenario.
type handedCtx struct {
	ctx   context.Context
	scope string
}

type runState struct {
	handed       []handedCtx // contexts handed to constructors during the call in progress (sequential mode)
	mu           sync.Mutex
	cmu          sync.Mutex
	cfg          *Cfg
	nextID       int
	fnReg        map[string]string // function name -> registration id
	regByID      map[string]*RegCfg
	inv          map[string]int // registration id -> invocations so far
	closeErr     map[string]bool
	scopes       map[string]godi.Scope
	names        map[godi.Scope]string
	cancels      map[string]context.CancelFunc
	markers      map[string]string    // scope name -> marker value visible in its context
	deadlines    map[string]time.Time // scope name -> deadline its context must report (zero: none)
	provider     godi.Provider
	cur          *opCtx
	quiet        bool
	stop         bool
	bare         bool // no recorder at all (race-detector runs)
	concurrent   bool
	curs         map[int64]*opCtx // per goroutine (concurrent mode)
	pendingNames map[godi.Scope]string
	orphans      []string           // context state of scope objects whose creation failed
	buildCancel  context.CancelFunc // set while a Build started with a cancellable context is in progress
	storm        bool               // contention scenario: closes are only counted
	chaos        bool               // free-running program with random delays at the gates
	closeWaits   bool               // instance Close waits for overlapping resolutions on its scope (free-running programs)
	instScope    map[int]string     // instance id -> scope it was constructed for
	creating     map[int64]string
	instReg      map[int]string
	waiters      map[godi.Scope]chan struct{}
	gate         func(point string, args ...any) // ctor / close scheduling gate (concurrent mode)
}

var R *runState

type ctxMarkerKey struct{}

func curOp() *opCtx {
	if R.concurrent && S != nil {
		R.cmu.Lock()
		c := R.curs[goid()]
		R.cmu.Unlock()
		if c != nil {
			return c
		}
	}
	if R.cur != nil {
		return R.cur
	}
	return &opCtx{op: "-", scope: "-"}
}

// curOpLocked is curOp for callers that already hold R.mu.
func curOpLocked() *opCtx {
	if R.concurrent && S != nil {
		R.cmu.Lock()
		c := R.curs[goid()]
		R.cmu.Unlock()
		if c != nil {
			return c
		}
	}
	return R.cur
}

func setCur(c *opCtx) {
	R.cmu.Lock()
	if c == nil {
		delete(R.curs, goid())
	} else {
		R.curs[goid()] = c
	}
	R.cmu.Unlock()
}

func argInst(v any) argRec {
	id := idOf(v)
	switch {
	case id > 0:
		return argRec{K: "inst", Ids: []int{id}, S: "-"}
	case id == 0:
		return argRec{K: "zero", Ids: []int{}, S: "-"}
	}
	return argRec{K: "foreign", Ids: []int{}, S: "-"}
}

func sliceArg[T any](vs []T) argRec {
	a := argRec{K: "inst", Ids: []int{}, S: "-"}
	for _, v := range vs {
		id := idOf(any(v))
		if id <= 0 {
			a.K = "foreign"
			id = 0
		}
		a.Ids = append(a.Ids, id)
	}
	return a
}

func argSlice0(vs []*S0) argRec { return sliceArg(vs) }
func argSlice1(vs []*S1) argRec { return sliceArg(vs) }
func argSlice2(vs []*S2) argRec { return sliceArg(vs) }
func argSlice3(vs []*S3) argRec { return sliceArg(vs) }

// scopeName maps a scope object to its scenario name; a scope first seen inside Build is the
// root scope, one first seen inside CreateScope is the scope being created.
func scopeName(s godi.Scope) string {
	if s == nil {
		return "nil"
	}
	R.mu.Lock()
	defer R.mu.Unlock()
	if n, ok := R.names[s]; ok {
		return n
	}
	if n, ok := R.pendingNames[s]; ok {
		return n
	}
	c := curOp()
	if c.op == "build" || c.op == "create" {
		if R.concurrent && c.op == "create" {
			R.pendingNames[s] = c.scope // the scope being created by this goroutine (may yet be abandoned)
			return c.scope
		}
		if _, taken := R.scopes[c.scope]; !taken {
			R.scopes[c.scope] = s
			R.names[s] = c.scope
			return c.scope
		}
	}
	return "?"
}

func argScope(s godi.Scope) argRec {
	return argRec{K: "scope", Ids: []int{}, S: scopeName(s)}
}

func argCtx(c context.Context) argRec {
	if c == nil {
		return argRec{K: "ctx", Ids: []int{}, S: "nil"}
	}
	s, err := godi.FromContext(c)
	if err != nil || s == nil {
		return argRec{K: "ctx", Ids: []int{}, S: "?"}
	}
	if s.Context() != c {
		return argRec{K: "ctx", Ids: []int{}, S: "?derived"}
	}
	name := scopeName(s)
	if !R.concurrent && !R.bare {
		R.mu.Lock()
		R.handed = append(R.handed, handedCtx{c, name})
		R.mu.Unlock()
	}
	return argRec{K: "ctx", Ids: []int{}, S: name}
}

func argProv(p godi.Provider) argRec {
	// during Build the provider is not yet known to the harness: checked again after Build
	R.mu.Lock()
	known := R.provider
	if known == nil && curOp().op == "build" && p != nil {
		R.provider = p
		known = p
	}
	R.mu.Unlock()
	if p != nil && p == known {
		return argRec{K: "prov", Ids: []int{}, S: "-"}
	}
	return argRec{K: "foreign", Ids: []int{}, S: "-"}
}

// recCtor is called by every library constructor: applies the fault script, allocates
// instance ids, emits the ctor event.  n = number of instances to allocate.
var bareIDs int64
var opEvents int64 // constructor events of the call in progress (sequential mode)

func recCtor(fn string, ign bool, n int, args []argRec) (ids []int, reg string, err error) {
	if R.bare {
		for i := 0; i < n; i++ {
			ids = append(ids, int(atomic.AddInt64(&bareIDs, 1)))
		}
		return ids, "bare", nil
	}
	if R.gate != nil {
		R.gate("U_ctor", fn)
	}
	R.mu.Lock()
	reg, ok := R.fnReg[fn]
	if !ok {
		reg = "?" + fn
	}
	R.inv[reg]++
	inv := R.inv[reg]
	how := ""
	for _, f := range R.cfg.Faults {
		if f.Reg == reg && f.At == inv {
			how = f.How
		}
	}
	outcome := "ok"
	switch how {
	case "err":
		outcome = "err"
	case "panic":
		outcome = "panic"
	case "nil":
		outcome = "nil"
		if r := R.regByID[reg]; r != nil && r.Shape == "ifacerr" {
			outcome = "unil" // the constructor's result type is an interface: this nil is untyped
		}
	}
	if outcome == "ok" {
		for i := 0; i < n; i++ {
			R.nextID++
			ids = append(ids, R.nextID)
			R.instReg[R.nextID] = reg
			R.instScope[R.nextID] = curOpLocked().scopeOr("-")
		}
	}
	if R.storm && len(ids) == 1 {
		// storm mode records no events: remember which instances this one was constructed with
		var got []int
		for _, a := range args {
			got = append(got, a.Ids...)
		}
		stormArgs.Store(ids[0], got)
	}
	outs := ids
	if r := R.regByID[reg]; r != nil && len(r.As) >= 2 && len(ids) == 1 {
		outs = nil
		for range r.As {
			outs = append(outs, ids[0]) // one invocation provides every alias
		}
	}
	if outs == nil {
		outs = []int{}
	}
	if args == nil {
		args = []argRec{}
	}
	sc := curOp().scope
	quiet := R.quiet
	R.mu.Unlock()
	if !quiet {
		if n := atomic.AddInt64(&opEvents, 1); n > 4000 && !R.concurrent {
			// a single call that keeps constructing: resolution does not terminate (it would end in a stack
			// overflow much later); report it like a call that never returns
			emit(M{"ev": "hang", "th": "main", "op": curOp().op, "why": "runaway construction"})
			flushOut()
			os.Exit(3)
		}
		emit(M{"ev": "ctor", "th": procName(), "reg": reg, "fn": fn, "inv": inv, "scope": sc, "args": args, "outs": outs, "outcome": outcome, "ign": ign})
	}
	switch outcome {
	case "err":
		return nil, reg, errFault
	case "panic":
		panic(faultPanic)
	case "nil", "unil":
		return nil, reg, nil
	}
	if how == "cancel" {
		// this constructor succeeds, but the context the Build in progress was started with is cancelled now
		R.mu.Lock()
		cancel := R.buildCancel
		R.mu.Unlock()
		if cancel != nil {
			cancel()
			if !quiet {
				emit(M{"ev": "cancelbuild", "th": procName(), "reg": reg})
			}
		}
	}
	return ids, reg, nil
}

func mkN(slot int, fn string, ign bool, args []argRec) (any, error) {
	ids, reg, err := recCtor(fn, ign, 1, args)
	if err != nil || ids == nil {
		return nil, err
	}
	return newS(slot, ids[0], reg), nil
}

func mk0(fn string, ign bool, args ...argRec) (*S0, error) {
	v, err := mkN(0, fn, ign, args)
	if v == nil {
		return nil, err
	}
	return v.(*S0), nil
}
func mk1(fn string, ign bool, args ...argRec) (*S1, error) {
	v, err := mkN(1, fn, ign, args)
	if v == nil {
		return nil, err
	}
	return v.(*S1), nil
}
func mk2(fn string, ign bool, args ...argRec) (*S2, error) {
	v, err := mkN(2, fn, ign, args)
	if v == nil {
		return nil, err
	}
	return v.(*S2), nil
}
func mk3(fn string, ign bool, args ...argRec) (*S3, error) {
	v, err := mkN(3, fn, ign, args)
	if v == nil {
		return nil, err
	}
	return v.(*S3), nil
}

// mkPair serves multi-return and result-object constructors: two instances from one invocation.
func mkPair(fn string, args ...argRec) (any, any, error) {
	ids, reg, err := recCtor(fn, true, 2, args)
	if err != nil || ids == nil {
		return nil, nil, err
	}
	sl := pairSlots[fn]
	return newS(sl[0], ids[0], reg), newS(sl[1], ids[1], reg), nil
}

func mkInit(fn string, args ...argRec) error {
	_, _, err := recCtor(fn, true, 0, args)
	return err
}

var runNo int

func recClose(id int, run int) error {
	R := R
	if R == nil || R.bare || run != runNo {
		return nil
	}
	if R.storm {
		v, _ := stormCloses.LoadOrStore(id, new(int64))
		atomic.AddInt64(v.(*int64), 1)
		R.mu.Lock()
		bad := R.closeErr[R.instReg[id]]
		R.mu.Unlock()
		if bad {
			return errCloseFault
		}
		return nil
	}
	if R.gate != nil {
		R.gate("U_close", id)
	}
	if R.closeWaits {
		waitForResolutions(R, id)
	}
	R.mu.Lock()
	bad := R.closeErr[R.instReg[id]]
	quiet := R.quiet
	R.mu.Unlock()
	outcome := "ok"
	if bad {
		outcome = "err"
	}
	if !quiet {
		emit(M{"ev": "close", "th": procName(), "inst": id, "outcome": outcome})
	}
	if bad {
		return errCloseFault
	}
	return nil
}

// waitForResolutions is what a disposable like a worker pool does in Close: it waits for the goroutines that are
// still using the scope.  It only waits when called from a closing call (Close / cancel / provider Close / a
// context watcher), not from a resolution that discards its own result.  In the container, a resolution that
// overlaps Close returns promptly (it is refused); if one never returns while Close waits here, the two have
// deadlocked - reported like any call that does not terminate.
func waitForResolutions(R *runState, id int) {
	me := goid()
	R.cmu.Lock()
	mine := R.curs[me]
	R.cmu.Unlock()
	if mine != nil && (mine.op == "resolve" || mine.op == "group" || mine.op == "create") {
		return
	}
	R.mu.Lock()
	scope := R.instScope[id]
	R.mu.Unlock()
	deadline := time.Now().Add(8 * time.Second)
	for {
		busy := false
		R.cmu.Lock()
		for g, c := range R.curs {
			if g != me && c != nil && (c.op == "resolve" || c.op == "group") && c.scope == scope {
				busy = true
			}
		}
		R.cmu.Unlock()
		if !busy {
			return
		}
		if time.Now().After(deadline) {
			emit(M{"ev": "hang", "th": procName(), "op": "close", "why": "an instance's Close waited for a resolution on its scope that never returned"})
			flushOut()
			os.Exit(3)
		}
		time.Sleep(200 * time.Microsecond)
	}
}

// ---------------------------------------------------------------- error classes

func asEither[T error](err error) bool {
	var v T
	if errors.As(err, &v) {
		return true
	}
	var p *T
	return errors.As(err, &p)
}

func classify(err error) []string {
	cs := []string{}
	if err == nil {
		return cs
	}
	add := func(b bool, c string) {
		if b {
			cs = append(cs, c)
		}
	}
	add(errors.Is(err, godi.ErrServiceNotFound), "notfound")
	add(errors.Is(err, godi.ErrScopeDisposed), "scopeDisposed")
	add(errors.Is(err, godi.ErrProviderDisposed), "providerDisposed")
	add(errors.Is(err, godi.ErrSingletonNotInitialized), "singletonNotInit")
	add(errors.Is(err, godi.ErrServiceTypeNil), "typeNil")
	add(errors.Is(err, godi.ErrServiceKeyNil), "keyNil")
	add(errors.Is(err, godi.ErrGroupNameEmpty), "groupEmpty")
	add(errors.Is(err, godi.ErrConstructorNil), "ctorNil")
	add(errors.Is(err, godi.ErrProviderNil), "providerNil")
	add(asEither[godi.CircularDependencyError](err), "circular")
	add(asEither[godi.LifetimeConflictError](err), "lifetimeConflict")
	add(asEither[godi.AlreadyRegisteredError](err), "alreadyRegistered")
	add(asEither[godi.ConstructorInvocationError](err), "ctorError")
	add(errors.Is(err, errFault), "cause")
	add(asEither[godi.ConstructorPanicError](err), "ctorPanic")
	{
		var pe *godi.ConstructorPanicError
		var pv godi.ConstructorPanicError
		if errors.As(err, &pe) && pe.Panic == any(faultPanic) {
			cs = append(cs, "panicval")
		} else if errors.As(err, &pv) && pv.Panic == any(faultPanic) {
			cs = append(cs, "panicval")
		}
	}
	add(errors.Is(err, context.Canceled), "canceled")
	add(asEither[godi.DisposalError](err), "disposal")
	add(asEither[godi.ValidationError](err), "validation")
	add(asEither[godi.BuildError](err), "build")
	add(asEither[godi.ResolutionError](err), "resolution")
	add(asEither[godi.RegistrationError](err), "registration")
	add(asEither[godi.ModuleError](err), "module")
	add(asEither[godi.TypeMismatchError](err), "typeMismatch")
	add(asEither[godi.TimeoutError](err), "timeout")
	add(asEither[godi.GraphOperationError](err), "graphOp")
	add(asEither[godi.ReflectionAnalysisError](err), "reflection")
	if len(cs) == 0 {
		cs = append(cs, "other")
	}
	return cs
}

func keyStr(k any) string {
	switch x := k.(type) {
	case nil:
		return "-"
	case string:
		return x
	case int:
		return "#" + strconv.Itoa(x)
	}
	return fmt.Sprintf("?%v", k)
}

func cyclePath(err error) []M {
	out := []M{}
	var ce *godi.CircularDependencyError
	var cv godi.CircularDependencyError
	var path []any
	if errors.As(err, &ce) {
		for _, n := range ce.Path {
			path = append(path, n)
		}
	} else if errors.As(err, &cv) {
		for _, n := range cv.Path {
			path = append(path, n)
		}
	}
	for _, n := range path {
		v := reflect.ValueOf(n)
		t, _ := v.FieldByName("Type").Interface().(reflect.Type)
		g := v.FieldByName("Group").String()
		if g == "" {
			g = "-"
		}
		out = append(out, M{"t": nameOfType(t), "k": keyStr(v.FieldByName("Key").Interface()), "g": g})
	}
	return out
}

// ---------------------------------------------------------------- scenario execution

func lifeOf(s string) godi.Lifetime {
	switch s {
	case "singleton":
		return godi.Singleton
	case "scoped":
		return godi.Scoped
	}
	return godi.Transient
}

func asOption(name string) godi.AddOption {
	if name == "I0" {
		return godi.As[I0]()
	}
	return godi.As[I1]()
}

func addReg(c godi.Collection, r *RegCfg, svc any) error {
	var opts []godi.AddOption
	if r.Name != "-" {
		opts = append(opts, godi.Name(r.Name))
	}
	if r.Group != "-" {
		opts = append(opts, godi.Group(r.Group))
	}
	for _, a := range r.As {
		opts = append(opts, asOption(a))
	}
	switch r.Life {
	case "singleton":
		return c.AddSingleton(svc, opts...)
	case "scoped":
		return c.AddScoped(svc, opts...)
	}
	return c.AddTransient(svc, opts...)
}

func noneRes() M { return M{"k": "none", "ids": []int{}, "s": "-"} }

func resOf(v any) M {
	switch x := v.(type) {
	case godi.Scope:
		return M{"k": "scope", "ids": []int{}, "s": scopeName(x)}
	case godi.Provider:
		a := argProv(x)
		return M{"k": a.K, "ids": []int{}, "s": "-"}
	case context.Context:
		a := argCtx(x)
		return M{"k": "ctx", "ids": []int{}, "s": a.S}
	}
	if _, isVoid := v.(struct{}); isVoid {
		return M{"k": "void", "ids": []int{}, "s": "-"}
	}
	id := idOf(v)
	if id > 0 {
		return M{"k": "inst", "ids": []int{id}, "s": "-"}
	}
	return M{"k": "foreign", "ids": []int{}, "s": "-"}
}

func baseRet(op string) M {
	return M{"ev": "ret", "th": "main", "op": op, "err": []string{}, "panic": false, "res": noneRes(), "path": []M{}, "ctxok": true}
}

func callEv(o *Op) M {
	d := func(s string) string {
		if s == "" {
			return "-"
		}
		return s
	}
	return M{"ev": "call", "th": "main", "op": o.Op, "sc": d(o.Sc), "name": d(o.Name), "t": d(o.T), "k": d(o.K), "g": d(o.G), "ctx": d(o.Ctx)}
}

// target returns the godi.Provider (scope or provider) an operation addresses.
func target(sc string) godi.Provider {
	if sc == "prov" {
		return R.provider
	}
	R.mu.Lock()
	defer R.mu.Unlock()
	if s, ok := R.scopes[sc]; ok {
		return s
	}
	return nil
}

func protect(ret M, f func()) {
	defer func() {
		if r := recover(); r != nil {
			ret["panic"] = true
			ret["panicmsg"] = fmt.Sprint(r)
			ret["res"] = noneRes()
		}
	}()
	f()
}

var farBase = time.Now().Add(1000 * time.Hour)

// farDeadline is a deadline far in the future that is distinct for every scope name
func farDeadline(name string) time.Time {
	h := 0
	for _, c := range name {
		h = h*31 + int(c)
	}
	return farBase.Add(time.Duration(h%100000) * time.Second)
}

func checkCtx(name string, s godi.Scope, o *Op, parentMarker string, parentName string) bool {
	ok := true
	ctx := s.Context()
	if ctx == nil {
		return false
	}
	fs, err := godi.FromContext(ctx)
	ok = ok && err == nil && fs == s
	type dk struct{}
	dctx, cancel := context.WithCancel(context.WithValue(ctx, dk{}, 1))
	defer cancel()
	fs2, err2 := godi.FromContext(dctx)
	ok = ok && err2 == nil && fs2 == s
	want := parentMarker
	if o.Ctx == "val" {
		want = "m-" + name
	} else if o.Ctx == "bg" {
		want = ""
	} else if o.Ctx == "der" {
		if _, isScope := target(o.Sc).(godi.Scope); isScope {
			want = "m-" + name
		}
	}
	got, _ := ctx.Value(ctxMarkerKey{}).(string)
	ok = ok && got == want
	// cancellation linkage, observed without cancelling anything: the scope's context reports the deadline of the
	// context it has to be derived from (the one passed to CreateScope, else the parent scope's)
	wantDl := R.deadlines[parentName]
	if o.Ctx == "val" {
		wantDl = farDeadline(name)
	} else if o.Ctx == "bg" {
		wantDl = time.Time{}
	}
	dl, has := ctx.Deadline()
	ok = ok && has == !wantDl.IsZero() && (!has || dl.Equal(wantDl))
	if ok {
		R.markers[name] = got
		R.deadlines[name] = wantDl
	}
	return ok
}

func doOp(o *Op) {
	R.cur = &opCtx{op: o.Op, scope: o.Sc}
	R.mu.Lock()
	R.handed = nil
	R.mu.Unlock()
	switch o.Op {
	case "build":
		R.cur.scope = "root"
	case "create":
		R.cur.scope = o.Name
		R.cur.parent = o.Sc
		if o.Sc == "prov" {
			R.cur.parent = "root"
		}
	default:
		if o.Sc == "prov" {
			R.cur.scope = "root"
		}
	}
	emit(callEv(o))
	flushOut()
	atomic.StoreInt64(&opEvents, 0)
	// a call that does not return (a resolution that never terminates, a wait that is never released) is
	// reported and ends this process; the driver runs the remaining scenarios in a fresh one
	watchdog := time.AfterFunc(8*time.Second, func() {
		emit(M{"ev": "hang", "th": "main", "op": o.Op})
		flushOut()
		os.Exit(3)
	})
	defer watchdog.Stop()
	ret := baseRet(o.Op)
	switch o.Op {
	case "resolve", "group":
		tg := target(o.Sc)
		if tg == nil {
			ret["err"] = []string{"harness:noscope"}
			break
		}
		protect(ret, func() {
			t := typeByName(o.T)
			if o.Op == "group" {
				vs, err := getGroupVia(tg, o.T, t, o.G)
				ret["err"] = classify(err)
				if err == nil {
					r := M{"k": "inst", "ids": []int{}, "s": "-"}
					ids := []int{}
					for _, v := range vs {
						id := idOf(v)
						if id <= 0 {
							r["k"] = "foreign"
							id = 0
						}
						ids = append(ids, id)
					}
					r["ids"] = ids
					ret["res"] = r
				}
				return
			}
			var v any
			var err error
			if o.K != "" && o.K != "-" {
				v, err = getKeyedVia(tg, o.T, t, o.K)
			} else {
				v, err = getVia(tg, o.T, t)
			}
			ret["err"] = classify(err)
			if err == nil {
				ret["res"] = resOf(v)
			} else if v != nil {
				ret["res"] = M{"k": "foreign", "ids": []int{}, "s": "-"}
			}
		})
	case "create":
		tg := target(o.Sc)
		if tg == nil {
			ret["err"] = []string{"harness:noscope"}
			break
		}
		protect(ret, func() {
			var ctx context.Context
			var cancel context.CancelFunc
			switch o.Ctx {
			case "nil", "":
				ctx = nil
			case "bg":
				ctx = context.Background()
			case "der":
				// derived from the parent scope's own context, with a cancel function of its own
				if ps, ok := tg.(godi.Scope); ok && ps.Context() != nil {
					// ... and OVERRIDING the marker value the parent scope's context carries: the value of the context
					// that was passed is the one the new scope's context answers with
					ctx, cancel = context.WithCancel(context.WithValue(ps.Context(), ctxMarkerKey{}, "m-"+o.Name))
				} else {
					ctx, cancel = context.WithCancel(context.Background())
				}
			case "val":
				ctx, cancel = context.WithDeadline(context.WithValue(context.Background(), ctxMarkerKey{}, "m-"+o.Name), farDeadline(o.Name))
			}
			s, err := tg.CreateScope(ctx)
			ret["err"] = classify(err)
			if err != nil {
				if cancel != nil {
					cancel()
				}
				// a failed creation must not leave a scope behind under this name
				R.mu.Lock()
				if old, ok := R.scopes[o.Name]; ok {
					// the scope object the initializers saw: its creation failed, its context must be cancelled
					st := "live"
					if c := old.Context(); c != nil && c.Err() != nil {
						st = "canceled"
					}
					R.orphans = append(R.orphans, st)
					ret["orphan"] = st
					delete(R.names, old)
					delete(R.scopes, o.Name)
				}
				R.mu.Unlock()
				return
			}
			R.mu.Lock()
			if old, ok := R.scopes[o.Name]; ok && old != s {
				delete(R.names, old) // the scope the initializers saw is not the one returned
				ret["ctxok"] = false
			}
			for _, h := range R.handed {
				// what was constructed while the scope was being created was handed THE scope's context: the one
				// the returned scope answers with (and that its Close cancels)
				if h.scope == o.Name && h.ctx != s.Context() {
					ret["ctxok"] = false
				}
			}
			R.scopes[o.Name] = s
			R.names[s] = o.Name
			live.trackScope(o.Name, s, R.cur.parent)
			if cancel != nil {
				R.cancels[o.Name] = cancel
			}
			R.mu.Unlock()
			pm := ""
			if o.Sc != "prov" {
				pm = R.markers[o.Sc]
			}
			if ret["ctxok"] == true {
				ret["ctxok"] = checkCtx(o.Name, s, o, pm, o.Sc)
			}
		})
	case "build":
		protect(ret, func() {
			c := godi.NewCollection()
			if o.Ctx == "prefill" {
				// the same collection was used before: as many registrations as this configuration has descriptors
				// were added, built successfully, and removed again.  Build's verdict on what follows must not depend
				// on that history.
				n := 0
				for i := range R.cfg.Regs {
					n += descCount(&R.cfg.Regs[i])
				}
				wasQuiet := R.quiet
				R.quiet = true
				for i := 0; i < n; i++ {
					c.AddSingleton(W{ID: -1000 - i}, godi.Name("fill"+strconv.Itoa(i)))
				}
				if p0, err := c.Build(); err == nil {
					p0.Close()
				}
				for i := 0; i < n; i++ {
					c.RemoveKeyed(typW, "fill"+strconv.Itoa(i))
				}
				R.quiet = wasQuiet
			}
			for i := range R.cfg.Regs {
				r := &R.cfg.Regs[i]
				svc, err := serviceValue(r)
				if err != nil {
					// the configuration asks for a constructor the generated library does not have: a defect of
					// the scenario generator, not of the container - fail loudly instead of skipping the scenario
					fmt.Fprintln(os.Stderr, "harness: configuration", R.cfg.Cid, "cannot be expressed:", err)
					flushOut()
					os.Exit(4)
				}
				if err == nil {
					err = addReg(c, r, svc)
				}
				if err == nil {
					err = applyRemovals(c, r)
				}
				if err != nil {
					emit(M{"ev": "adderr", "reg": r.ID, "err": classify(err), "msg": err.Error()})
					R.quiet = true
					return
				}
				if o.Ctx == "staged" && i < len(R.cfg.Regs)-1 {
					// the collection is built after EVERY registration call (whatever the verdict): the Build that is
					// judged in the end sees a collection whose earlier states were validated, built and closed before
					wasQuiet := R.quiet
					R.quiet = true
					func() {
						defer func() { recover() }()
						if p0, err := c.Build(); err == nil {
							p0.Close()
						}
					}()
					R.mu.Lock()
					R.inv = map[string]int{}
					R.provider = nil
					R.mu.Unlock()
					R.quiet = wasQuiet
				}
			}
			if o.Ctx == "rebuild" {
				// the collection is built, edited by Remove only, and built again: every required dependency nobody
				// provides gets a filler registration first; a first Build succeeds (or fails for another reason);
				// the fillers are removed; the Build that follows is the one that is judged - on exactly the
				// configuration's registrations
				type fill struct {
					t reflect.Type
					k any
				}
				var fills []fill
				have := func(t string, k string) bool {
					for i := range R.cfg.Regs {
						r := &R.cfg.Regs[i]
						for o := 1; o <= 2; o++ {
							if tt, kk, ok := outIdent(r, o); ok && tt == typeByName(t) {
								ks := "-"
								if kk != nil {
									ks = fmt.Sprint(kk)
								}
								removed := false
								for _, x := range r.Rm {
									removed = removed || x == o
								}
								if ks == k && !removed {
									return true
								}
							}
						}
					}
					return false
				}
				for i := range R.cfg.Regs {
					for _, pp := range R.cfg.Regs[i].Params {
						if pp.B != "-" || pp.G != "-" || pp.Opt {
							continue
						}
						if _, isSlot := slotOfType(pp.T); !isSlot || have(pp.T, pp.K) {
							continue
						}
						var k any
						if pp.K != "-" {
							k = pp.K
						}
						dup := false
						for _, f := range fills {
							dup = dup || (f.t == typeByName(pp.T) && f.k == k)
						}
						if !dup {
							fills = append(fills, fill{typeByName(pp.T), k})
						}
					}
				}
				wasQuiet := R.quiet
				R.quiet = true
				for _, f := range fills {
					s, _ := slotOfType(nameOfType(f.t))
					v := newS(s, -2000, "filler")
					if f.k != nil {
						c.AddSingleton(v, godi.Name(fmt.Sprint(f.k)))
					} else {
						c.AddSingleton(v)
					}
				}
				if p0, err := c.Build(); err == nil {
					p0.Close()
				}
				for _, f := range fills {
					if f.k != nil {
						c.RemoveKeyed(f.t, f.k)
					} else {
						c.Remove(f.t)
					}
				}
				R.mu.Lock()
				R.inv = map[string]int{}
				R.provider = nil
				R.mu.Unlock()
				R.quiet = wasQuiet
			}
			var p godi.Provider
			var err error
			withCancel := false
			for _, f := range R.cfg.Faults {
				withCancel = withCancel || f.How == "cancel"
			}
			if withCancel {
				bctx, cancel := context.WithCancel(context.Background())
				R.mu.Lock()
				R.buildCancel = cancel
				R.mu.Unlock()
				p, err = c.BuildWithContext(bctx)
				R.mu.Lock()
				R.buildCancel = nil
				R.mu.Unlock()
				cancel()
			} else if runNo%3 == 0 {
				p, err = c.BuildWithOptions(&godi.ProviderOptions{BuildTimeout: time.Hour}) // same meaning as Build
			} else {
				p, err = c.Build()
			}
			ret["err"] = classify(err)
			if err != nil {
				ret["path"] = cyclePath(err)
				ret["msg"] = err.Error()
				if kept := R.provider; kept != nil {
					// a constructor was handed the provider before Build failed: after the clean-up of the failed
					// Build that provider is closed and says so
					func() {
						defer func() {
							if r := recover(); r != nil {
								ret["afterfail"] = []string{"panic"}
							}
						}()
						_, e1 := kept.Get(typS[0])
						_, e2 := kept.CreateScope(context.Background())
						ret["afterfail"] = append(classify(e1), classify(e2)...)
					}()
				}
				R.provider = nil
				R.stop = true // nothing can be done with a provider that was not built
				return
			}
			if R.provider != nil && R.provider != p {
				ret["ctxok"] = false // constructors were handed a different provider
			}
			R.provider = p
			if rs, err := p.Get(typScope); err == nil {
				if s, ok := rs.(godi.Scope); ok {
					R.mu.Lock()
					if old, ok := R.scopes["root"]; ok && old != s {
						delete(R.names, old)
						ret["ctxok"] = false
					}
					R.scopes["root"] = s
					R.names[s] = "root"
					live.trackScope("root", s, "-")
					R.mu.Unlock()
				}
			}
		})
	case "close", "closeprov":
		var tg godi.Provider
		if o.Op == "closeprov" {
			tg = R.provider
		} else {
			tg = target(o.Sc)
		}
		if tg == nil {
			ret["err"] = []string{"harness:noscope"}
			break
		}
		protect(ret, func() {
			err := tg.Close()
			ret["err"] = classify(err)
		})
		if o.Op == "closeprov" {
			live.markClosed("prov")
		} else {
			live.markClosed(o.Sc)
		}
	case "cancel":
		R.mu.Lock()
		cancel := R.cancels[o.Sc]
		s := R.scopes[o.Sc]
		ch := make(chan struct{})
		if s != nil {
			R.waiters[s] = ch
		}
		R.mu.Unlock()
		if cancel == nil || s == nil {
			ret["err"] = []string{"harness:nocancel"}
			break
		}
		// is it already closed? then the watcher has nothing to do
		if _, err := s.Get(typScope); errors.Is(err, godi.ErrScopeDisposed) {
			cancel()
			break
		}
		sctx := s.Context()
		cancel()
		// cancellation reaches a derived context before cancel() returns
		if sctx == nil || sctx.Err() == nil {
			ret["ctxok"] = false
		}
		live.markClosed(o.Sc)
		select {
		case <-ch:
		case <-time.After(20 * time.Second):
			ret["err"] = []string{"hang"}
		}
	}
	emit(ret)
	R.cur = nil
}

// instValues holds the pre-built instance values of "inst"-shape registrations.
func serviceValue(r *RegCfg) (any, error) {
	if r.Shape == "inst" {
		R.mu.Lock()
		R.nextID++
		id := R.nextID
		R.instReg[id] = r.ID
		R.mu.Unlock()
		if !R.quiet {
			emit(M{"ev": "inst", "reg": r.ID, "id": id})
		}
		return newS(r.Slot, id, r.ID), nil
	}
	if r.Shape == "instv" {
		R.mu.Lock()
		R.nextID++
		id := R.nextID
		R.instReg[id] = r.ID
		R.mu.Unlock()
		if !R.quiet {
			emit(M{"ev": "inst", "reg": r.ID, "id": id})
		}
		return W{ID: id, Reg: r.ID}, nil
	}
	if r.Kind != "" && r.Kind != "ptr" {
		return kindValue(r)
	}
	fn, err := fnName(r)
	if err != nil {
		return nil, err
	}
	f, ok := ctorLib[fn]
	if !ok {
		return nil, fmt.Errorf("constructor %s is not in the library", fn)
	}
	if prev, dup := R.fnReg[fn]; dup && prev != r.ID {
		return nil, fmt.Errorf("constructor %s used by two registrations", fn)
	}
	R.fnReg[fn] = r.ID
	return f, nil
}

func newRun(cfg *Cfg) *runState {
	live.reset()
	r := &runState{cfg: cfg, fnReg: map[string]string{}, regByID: map[string]*RegCfg{}, inv: map[string]int{},
		closeErr: map[string]bool{}, scopes: map[string]godi.Scope{}, names: map[godi.Scope]string{},
		cancels: map[string]context.CancelFunc{}, markers: map[string]string{}, deadlines: map[string]time.Time{}, instScope: map[int]string{}, instReg: map[int]string{},
		waiters: map[godi.Scope]chan struct{}{}, curs: map[int64]*opCtx{}, pendingNames: map[godi.Scope]string{},
		creating: map[int64]string{}}
	for i := range cfg.Regs {
		r.regByID[cfg.Regs[i].ID] = &cfg.Regs[i]
	}
	for _, id := range cfg.CloseErr {
		r.closeErr[id] = true
	}
	return r
}

func seqHook(gate bool, point string, args ...any) {
	if R == nil || point != "C_ret" || len(args) == 0 {
		return
	}
	s, ok := args[0].(godi.Scope)
	if !ok {
		return
	}
	R.mu.Lock()
	ch := R.waiters[s]
	delete(R.waiters, s)
	R.mu.Unlock()
	if ch != nil {
		close(ch)
	}
}

var emitMu sync.Mutex
var fatalDepth int32

func runScenario(sc *Scenario, raw json.RawMessage, run int) {
	runNo = run
	R = newRun(&sc.Cfg)
	var cfgRaw struct {
		Cfg json.RawMessage `json:"cfg"`
	}
	json.Unmarshal(raw, &cfgRaw)
	emit(M{"ev": "reset", "run": run, "cfg": cfgRaw.Cfg})
	g0 := runtime.NumGoroutine()
	for i := range sc.Ops {
		o := &sc.Ops[i]
		if o.Op == "obs" {
			doObs(g0)
			continue
		}
		if o.Op == "abuse" {
			doAbuse()
			continue
		}
		doOp(o)
		if R.quiet || R.stop {
			break
		}
	}
	// clean-up, not part of the trace
	R.quiet = true
	if R.provider != nil {
		func() {
			defer func() { recover() }()
			R.provider.Close()
		}()
	}
	for _, c := range R.cancels {
		c()
	}
	atomic.StoreInt32(&fatalDepth, 0)
}

func containerMain(args []string) {
	fs := flag.NewFlagSet("container", flag.ExitOnError)
	skip := fs.Int("skip", 0, "skip the first n scenarios (resume after a crash)")
	fs.Parse(args)
	godi.VerifHook = seqHook
	debug.SetMaxStack(64 << 20)
	sc := bufio.NewScanner(os.Stdin)
	sc.Buffer(make([]byte, 1<<20), 1<<26)
	run := 0
	for sc.Scan() {
		run++
		if run <= *skip {
			continue
		}
		var s Scenario
		raw := append([]byte(nil), sc.Bytes()...)
		if err := json.Unmarshal(raw, &s); err != nil {
			fmt.Fprintln(os.Stderr, "bad scenario:", err)
			flushOut()
			os.Exit(4)
		}
		runScenario(&s, raw, run)
		flushOut()
	}
}

func init() { modes["container"] = containerMain }
