package main

import (
	"bufio"
	"bytes"
	"context"
	"encoding/json"
	"errors"
	"flag"
	"fmt"
	"os"
	"runtime"
	"strconv"
	"sync"
	"sync/atomic"
	"time"

	godi "github.com/junioryono/godi/v4"
)

// conc mode: k goroutines operate on one provider.  A cooperative scheduler built on the
// verif hook gates (plus the entry of harness constructors and Close methods) runs exactly one
// goroutine at a time and replays a schedule - a sequence of <process, gate> steps produced by
// TLC from ScopeConc; afterwards (or from the start in "free" scenarios) all gates are opened
// and the goroutines finish with real parallelism.  Every call / return / constructor / close is
// recorded with the process that performed it.

type COp struct {
	Op  string `json:"op"`
	S   string `json:"s"`
	K   string `json:"k"`
	Ctx string `json:"ctx,omitempty"` // create: "nil" (the parent scope's context) or "bg" (a context of its own)
	T   string `json:"t,omitempty"`   // explicit identity (random programs over random registration sets)
	TK  string `json:"tk,omitempty"`
}

func (o COp) ident() [2]string {
	if o.T != "" {
		k := o.TK
		if k == "" {
			k = "-"
		}
		return [2]string{o.T, k}
	}
	return concKeys[o.K]
}

type CScenario struct {
	Cfg   Cfg            `json:"cfg"`
	Init  []string       `json:"init"`
	Pre   [][2]string    `json:"pre"`
	Ops   map[string]COp `json:"ops"`
	Sched [][]string     `json:"sched"`
	Free  bool           `json:"free"`
	// CloseWaits: the Close method of every instance waits until no resolution issued on its scope by another
	// goroutine is still in flight (user code such as a worker pool's Close waiting for its workers); only
	// meaningful for free-running programs
	CloseWaits bool            `json:"closewaits,omitempty"`
	Storm      *Storm          `json:"storm,omitempty"`
	Chaos      bool            `json:"chaos,omitempty"` // free-running: random delays at the gates
	Raw        json.RawMessage `json:"-"`
}

func goid() int64 {
	var buf [64]byte
	n := runtime.Stack(buf[:], false)
	b := buf[:n]
	b = b[len("goroutine "):]
	i := bytes.IndexByte(b, ' ')
	id, _ := strconv.ParseInt(string(b[:i]), 10, 64)
	return id
}

type parked struct {
	name  string
	point string
	wake  chan struct{}
}

type sched struct {
	mu      sync.Mutex
	active  bool             // gates park only while active
	procs   map[int64]string // goroutine id -> process name
	parkedQ map[string]*parked
	arrive  chan string // a process parked or finished: its name
	done    map[string]bool
	running string // the process released last (scheduled mode)
}

var S *sched
var slowSteps int

func newSched() *sched {
	return &sched{procs: map[int64]string{}, parkedQ: map[string]*parked{}, arrive: make(chan string, 1024), done: map[string]bool{}}
}

func procName() string {
	S := S
	if S == nil {
		return "main"
	}
	id := goid()
	S.mu.Lock()
	n, ok := S.procs[id]
	S.mu.Unlock()
	if !ok {
		return "main"
	}
	return n
}

// park blocks the calling goroutine at a scheduling point until the scheduler releases it.
func park(point string) {
	S := S
	if S == nil {
		return
	}
	id := goid()
	S.mu.Lock()
	name, managed := S.procs[id]
	if !S.active || !managed {
		chaos := !S.active && managed && R != nil && R.chaos
		S.mu.Unlock()
		if chaos {
			// free-running programs: stretch the windows between the critical sections at random
			x := time.Now().UnixNano()
			if (point == "U_ctor" || point == "U_close") && (x/11)%2 == 0 {
				// user code (a constructor, an instance's Close) that takes its time
				time.Sleep(time.Duration(500+x%2500) * time.Microsecond)
				return
			}
			switch (x / 7) % 4 {
			case 0:
				time.Sleep(time.Duration(x%200) * time.Microsecond)
			case 1:
				runtime.Gosched()
			}
		}
		return
	}
	p := &parked{name: name, point: point, wake: make(chan struct{})}
	S.parkedQ[name] = p
	S.mu.Unlock()
	S.arrive <- name
	<-p.wake
}

func concHook(gate bool, point string, args ...any) {
	seqHook(gate, point, args...)
	S := S
	R := R
	if S == nil || R == nil {
		return
	}
	if point == "K_track" || point == "K_addChild" {
		// the creating goroutine announces the scope object it is about to register: name it now, so that
		// its watcher (started right after) can be identified
		if len(args) > 1 {
			if child, ok := args[1].(godi.Scope); ok {
				R.mu.Lock()
				if _, known := R.names[child]; !known {
					if _, pending := R.pendingNames[child]; !pending {
						if c := curOpLocked(); c != nil && c.op == "create" {
							R.pendingNames[child] = c.scope
						}
					}
				}
				R.mu.Unlock()
			}
		}
	}
	if (point == "C_waitchild" || point == "P_waitscope") && len(args) > 1 {
		// the Close in progress is about to wait for this scope's disposal to complete: from here on it
		// answers for what fails there
		if sc, ok := args[1].(godi.Scope); ok && !R.quiet {
			emit(M{"ev": "waits", "th": procName(), "scope": scopeNameQuiet(sc)})
		}
	}
	if point == "W_wait" {
		// a watcher goroutine introduces itself; it then blocks on its context, which is not a gate
		if len(args) > 0 {
			if sc, ok := args[0].(godi.Scope); ok {
				sn := scopeNameQuiet(sc)
				S.mu.Lock()
				if sn == "?" && S.running != "" {
					sn = "n_" + S.running // spawned by the process that is creating a scope right now
				}
				S.procs[goid()] = "w:" + sn
				S.mu.Unlock()
			}
		}
		return
	}
	if (point == "C_noop" || point == "P_noop") && !R.quiet {
		// this Close lost the compare-and-swap: it is the idempotent no-op, somebody else does (or did) the closing
		name := "prov"
		if point == "C_noop" && len(args) > 0 {
			if sc, ok := args[0].(godi.Scope); ok {
				name = scopeNameQuiet(sc)
			}
		}
		emit(M{"ev": "noop", "th": procName(), "scope": name})
	}
	if point == "W_exit" {
		S.mu.Lock()
		name := S.procs[goid()]
		S.done[name] = true
		active := S.active
		S.mu.Unlock()
		if active {
			S.arrive <- name
		}
		return
	}
	if gate {
		park(point)
	}
}

// scopeNameQuiet: like scopeName but never assigns a name.
func scopeNameQuiet(s godi.Scope) string {
	R.mu.Lock()
	defer R.mu.Unlock()
	if n, ok := R.names[s]; ok {
		return n
	}
	if n, ok := R.pendingNames[s]; ok {
		return n
	}
	return "?"
}

var concKeys = map[string][2]string{"S": {"S0", "-"}, "A": {"S1", "-"}, "B": {"S2", "-"}, "T": {"S0", "k"},
	"I": {"I0", "-"}, "J": {"I1", "-"}, "M": {"S1", "-"}, "N": {"S2", "-"}}

func concEmit(th string, m M) {
	m["th"] = th
	emit(m)
}

// runThreadOp performs one operation of a user thread and records call and return.
func runThreadOp(th string, o COp) {
	call := M{"ev": "call", "op": o.Op, "sc": o.S, "name": "-", "t": "-", "k": "-", "g": "-", "ctx": "-"}
	ret := baseRet(o.Op)
	newName := "n_" + th
	switch o.Op {
	case "get", "pget":
		tk := o.ident()
		call["op"], call["t"], call["k"] = "resolve", tk[0], tk[1]
		ret["op"] = "resolve"
		if o.Op == "pget" {
			call["sc"] = "prov"
		}
	case "gget":
		tk := o.ident()
		call["op"], call["t"], call["g"] = "group", tk[0], "g"
		ret["op"] = "group"
	case "create":
		call["name"] = newName
	case "pclose":
		call["op"] = "closeprov"
		ret["op"] = "closeprov"
		call["sc"] = "-"
	}
	cur := &opCtx{op: call["op"].(string), scope: o.S}
	switch o.Op {
	case "pget":
		cur.scope = "root"
	case "gget":
		cur.op = "group"
	case "create":
		cur.scope, cur.parent = newName, o.S
	}
	setCur(cur)
	defer setCur(nil)
	concEmit(th, call)
	protect(ret, func() {
		switch o.Op {
		case "get", "pget":
			var tg godi.Provider
			if o.Op == "pget" {
				tg = R.provider
			} else {
				tg = target(o.S)
			}
			tk := o.ident()
			var v any
			var err error
			if tk[1] != "-" {
				v, err = tg.GetKeyed(typeByName(tk[0]), tk[1])
			} else {
				v, err = tg.Get(typeByName(tk[0]))
			}
			ret["err"] = classify(err)
			if err == nil {
				ret["res"] = resOf(v)
			}
		case "gget":
			tg := target(o.S)
			tk := o.ident()
			vs, err := tg.GetGroup(typeByName(tk[0]), "g")
			ret["err"] = classify(err)
			if err == nil {
				ids := []int{}
				for _, v := range vs {
					ids = append(ids, idOf(v))
				}
				ret["res"] = M{"k": "inst", "ids": ids, "s": "-"}
			}
		case "create":
			tg := target(o.S)
			R.mu.Lock()
			R.creating[goid()] = newName
			R.mu.Unlock()
			var cctx context.Context
			if o.Ctx == "bg" {
				cctx = context.Background()
			}
			s, err := tg.CreateScope(cctx)
			ret["err"] = classify(err)
			R.mu.Lock()
			delete(R.creating, goid())
			if err == nil {
				R.scopes[newName] = s
				R.names[s] = newName
				par := o.S
				if par == "prov" {
					par = "root"
				}
				live.trackScope(newName, s, par)
			}
			R.mu.Unlock()
		case "close":
			err := target(o.S).Close()
			ret["err"] = classify(err)
		case "pclose":
			err := R.provider.Close()
			ret["err"] = classify(err)
		case "cancel":
			park("X_cancel")
			R.mu.Lock()
			c := R.cancels[o.S]
			R.mu.Unlock()
			if c != nil {
				c()
			}
		}
	})
	concEmit(th, ret)
}

// Storm describes a contention scenario: Iters times, K goroutines leave a spin barrier together and all call
// Close on the same scope (which owns two instances; with Fail one of them reports an error).  No scheduler and no
// per-event recording inside the window: the harness only counts instance closes, non-nil returns and panics and
// records one summary event per iteration.
type Storm struct {
	Iters int  `json:"iters"`
	K     int  `json:"k"`
	Fail  bool `json:"fail"`
	// What = "" : the goroutines close one scope.  "scoped" / "transient" / "singleton" / "mixed": they RESOLVE in one
	// fresh scope instead (first resolutions of a scoped service, of a transient, of a singleton, or a mix of the
	// scoped A and its dependency B): summary event rstorm
	What string `json:"what,omitempty"`
}

var stormCloses sync.Map // instance id -> *int64
var stormArgs sync.Map   // instance id -> ids of the instances it was constructed with (storm mode)

// scopesStorm: Iters times, K goroutines - each with a fresh scope OF ITS OWN - leave a spin barrier together and
// resolve the scoped A (which depends on the scoped B): the same constructor runs in K scopes at once.  Every A must have
// been constructed with the B of its own scope, every scope has its own A and B, each constructor ran once per scope.
func scopesStorm(sc *CScenario, p godi.Provider) {
	k := sc.Storm.K
	for it := 0; it < sc.Storm.Iters; it++ {
		stormCloses = sync.Map{}
		stormArgs = sync.Map{}
		scopes := make([]godi.Scope, k)
		for g := range scopes {
			s, err := p.CreateScope(context.Background())
			if err != nil {
				return
			}
			scopes[g] = s
		}
		R.mu.Lock()
		beforeA, beforeB := R.inv["r2"], R.inv["r3"]
		R.mu.Unlock()
		res := make([]any, k)
		var ready, errs, panics int64
		var wg sync.WaitGroup
		for g := 0; g < k; g++ {
			wg.Add(1)
			go func(g int) {
				defer wg.Done()
				defer func() {
					if r := recover(); r != nil {
						atomic.AddInt64(&panics, 1)
					}
				}()
				atomic.AddInt64(&ready, 1)
				for atomic.LoadInt64(&ready) < int64(k) {
				}
				v, err := scopes[g].Get(typeByName("S1"))
				if err != nil || v == nil {
					atomic.AddInt64(&errs, 1)
					return
				}
				res[g] = v
			}(g)
		}
		wg.Wait()
		crossed, shared := 0, 0
		seenA, seenB := map[any]bool{}, map[any]bool{}
		for g := 0; g < k; g++ {
			if res[g] == nil {
				continue
			}
			if seenA[res[g]] {
				shared++
			}
			seenA[res[g]] = true
			b, err := scopes[g].Get(typeByName("S2"))
			if err != nil || b == nil {
				errs++
				continue
			}
			if seenB[b] {
				shared++
			}
			seenB[b] = true
			got, _ := stormArgs.Load(idOf(res[g]))
			ids, _ := got.([]int)
			if len(ids) != 1 || ids[0] != idOf(b) {
				crossed++ // this scope's A was constructed with something else than this scope's B
			}
		}
		R.mu.Lock()
		runs := []int{R.inv["r2"] - beforeA, R.inv["r3"] - beforeB, 0, 0}
		R.mu.Unlock()
		cerr := 0
		for g := range scopes {
			func() {
				defer func() {
					if r := recover(); r != nil {
						atomic.AddInt64(&panics, 1)
					}
				}()
				if err := scopes[g].Close(); err != nil {
					cerr = 1
				}
			}()
		}
		closes := []int{}
		stormCloses.Range(func(_, v any) bool {
			closes = append(closes, int(atomic.LoadInt64(v.(*int64))))
			return true
		})
		emit(M{"ev": "sstorm", "k": k, "crossed": crossed, "shared": shared, "runs": runs, "errs": int(errs), "panics": int(panics),
			"closes": closes, "closeerr": cerr})
	}
}

// resolveStorm: Iters times, K goroutines leave a spin barrier together and resolve in one FRESH scope - the first
// resolutions of a scoped service (what=scoped: the scoped A, which depends on the scoped B; what=mixed: odd goroutines
// ask for B directly), of the keyed transient (what=transient) or of the singleton (what=singleton).  No scheduler, no
// per-event recording inside the window; one summary event per iteration: how many distinct instances the callers got
// per requested service, how often the constructors of the scoped A, the scoped B, the transient and the singleton
// ran during the iteration, failures, panics, and how often each instance was closed by the Close that follows.
func resolveStorm(sc *CScenario, p godi.Provider) {
	k := sc.Storm.K
	what := sc.Storm.What
	regs := []string{"r2", "r3", "r4", "r1"}
	for it := 0; it < sc.Storm.Iters; it++ {
		stormCloses = sync.Map{}
		sco, err := p.CreateScope(context.Background())
		if err != nil {
			break
		}
		R.mu.Lock()
		before := map[string]int{}
		for _, r := range regs {
			before[r] = R.inv[r]
		}
		R.mu.Unlock()
		res := make([]any, k)
		asked := make([]string, k)
		var ready, errs, panics int64
		var wg sync.WaitGroup
		for g := 0; g < k; g++ {
			wg.Add(1)
			go func(g int) {
				defer wg.Done()
				defer func() {
					if r := recover(); r != nil {
						atomic.AddInt64(&panics, 1)
					}
				}()
				atomic.AddInt64(&ready, 1)
				for atomic.LoadInt64(&ready) < int64(k) { // spin barrier: leave together
				}
				var v any
				var err error
				switch {
				case what == "transient":
					asked[g] = "T"
					v, err = sco.GetKeyed(typeByName("S0"), "k")
				case what == "singleton":
					asked[g] = "S"
					v, err = sco.Get(typeByName("S0"))
				case what == "mixed" && g%2 == 1:
					asked[g] = "B"
					v, err = sco.Get(typeByName("S2"))
				default:
					asked[g] = "A"
					v, err = sco.Get(typeByName("S1"))
				}
				if err != nil || v == nil {
					atomic.AddInt64(&errs, 1)
					return
				}
				res[g] = v
			}(g)
		}
		wg.Wait()
		distinct := map[string]int{}
		seen := map[any]bool{}
		for g := 0; g < k; g++ {
			if res[g] != nil && !seen[res[g]] {
				seen[res[g]] = true
				distinct[asked[g]]++
			}
		}
		R.mu.Lock()
		runs := []int{}
		for _, r := range regs {
			runs = append(runs, R.inv[r]-before[r])
		}
		R.mu.Unlock()
		cerr := 0
		func() {
			defer func() {
				if r := recover(); r != nil {
					atomic.AddInt64(&panics, 1)
				}
			}()
			if err := sco.Close(); err != nil {
				cerr = 1
			}
		}()
		closes := []int{}
		stormCloses.Range(func(_, v any) bool {
			closes = append(closes, int(atomic.LoadInt64(v.(*int64))))
			return true
		})
		askedN := map[string]int{}
		for g := 0; g < k; g++ {
			askedN[asked[g]]++
		}
		da := []int{distinct["A"], distinct["B"], distinct["T"], distinct["S"]}
		an := []int{askedN["A"], askedN["B"], askedN["T"], askedN["S"]}
		emit(M{"ev": "rstorm", "k": k, "what": what, "asked": an, "distinct": da, "runs": runs, "errs": int(errs), "panics": int(panics),
			"closes": closes, "closeerr": cerr})
	}
}

func stormScenario(sc *CScenario, run int) {
	runNo = run
	R = newRun(&sc.Cfg)
	R.quiet = true
	R.storm = true
	S = nil
	var cfgRaw struct {
		Cfg json.RawMessage `json:"cfg"`
	}
	json.Unmarshal(sc.Raw, &cfgRaw)
	emit(M{"ev": "reset", "run": run, "cfg": cfgRaw.Cfg, "threads": sc.Storm.K})
	c := godi.NewCollection()
	for i := range R.cfg.Regs {
		r := &R.cfg.Regs[i]
		svc, err := serviceValue(r)
		if err == nil {
			err = addReg(c, r, svc)
		}
		if err != nil {
			fmt.Fprintln(os.Stderr, "storm: registration failed:", err)
			flushOut()
			os.Exit(4)
		}
	}
	p, err := c.Build()
	if err != nil {
		fmt.Fprintln(os.Stderr, "storm: build failed:", err)
		flushOut()
		os.Exit(4)
	}
	k := sc.Storm.K
	if sc.Storm.What == "scopes" {
		scopesStorm(sc, p)
		func() {
			defer func() { recover() }()
			p.Close()
		}()
		R.storm = false
		return
	}
	if sc.Storm.What != "" {
		resolveStorm(sc, p)
		func() {
			defer func() { recover() }()
			p.Close()
		}()
		R.storm = false
		return
	}
	for it := 0; it < sc.Storm.Iters; it++ {
		stormCloses = sync.Map{}
		sco, err := p.CreateScope(context.Background())
		if err != nil {
			break
		}
		sco.Get(typeByName("S1")) // the scoped A and, through it, B
		var ready, nonnil, panics int64
		var wg sync.WaitGroup
		for g := 0; g < k; g++ {
			wg.Add(1)
			go func() {
				defer wg.Done()
				defer func() {
					if r := recover(); r != nil {
						atomic.AddInt64(&panics, 1)
					}
				}()
				atomic.AddInt64(&ready, 1)
				for atomic.LoadInt64(&ready) < int64(k) { // spin barrier: leave together
				}
				if err := sco.Close(); err != nil {
					atomic.AddInt64(&nonnil, 1)
				}
			}()
		}
		wg.Wait()
		closes := []int{}
		stormCloses.Range(func(_, v any) bool {
			closes = append(closes, int(atomic.LoadInt64(v.(*int64))))
			return true
		})
		emit(M{"ev": "storm", "k": k, "closes": closes, "errs": int(nonnil), "panics": int(panics), "fail": sc.Storm.Fail})
	}
	func() {
		defer func() { recover() }()
		p.Close()
	}()
	R.storm = false
}

func concScenario(sc *CScenario, run int) (orderDrift bool) {
	runNo = run
	R = newRun(&sc.Cfg)
	R.concurrent = true
	R.closeWaits = sc.Free && sc.CloseWaits
	R.chaos = sc.Free && sc.Chaos
	S = newSched()
	var cfgRaw struct {
		Cfg json.RawMessage `json:"cfg"`
	}
	json.Unmarshal(sc.Raw, &cfgRaw)
	emit(M{"ev": "reset", "run": run, "cfg": cfgRaw.Cfg, "threads": len(sc.Ops)})
	g0 := runtime.NumGoroutine()

	// ---- sequential set-up: build, initial scopes, pre-cached resolutions
	doOp(&Op{Op: "build"})
	if R.stop || R.quiet {
		return false
	}
	for _, s := range sc.Init {
		if s == "s1" {
			doOp(&Op{Op: "create", Sc: "prov", Name: "s1", Ctx: "val"})
		} else if s == "s3" {
			doOp(&Op{Op: "create", Sc: "s2", Name: s, Ctx: "nil"}) // third level: child of s2
		} else {
			doOp(&Op{Op: "create", Sc: "s1", Name: s, Ctx: "nil"})
		}
	}
	for _, pk := range sc.Pre {
		tk := concKeys[pk[1]]
		doOp(&Op{Op: "resolve", Sc: pk[0], T: tk[0], K: tk[1]})
	}
	emit(M{"ev": "go"})

	// ---- threads
	names := make([]string, 0, len(sc.Ops))
	for n := range sc.Ops {
		names = append(names, n)
	}
	sortStrings(names)
	var wg sync.WaitGroup
	finished := map[string]chan struct{}{}
	S.mu.Lock()
	S.active = !sc.Free
	S.mu.Unlock()
	R.gate = func(point string, _ ...any) { park(point) }
	startAll := make(chan struct{}) // free mode: all threads start together
	for _, n := range names {
		n := n
		op := sc.Ops[n]
		ch := make(chan struct{})
		finished[n] = ch
		started := make(chan struct{})
		S.mu.Lock()
		S.running = n
		S.mu.Unlock()
		wg.Add(1)
		go func() {
			defer wg.Done()
			S.mu.Lock()
			S.procs[goid()] = n
			S.mu.Unlock()
			close(started)
			if sc.Free {
				<-startAll
			}
			runThreadOp(n, op)
			S.mu.Lock()
			S.done[n] = true
			active := S.active
			S.mu.Unlock()
			close(ch)
			if active {
				S.arrive <- n
			}
		}()
		<-started
		if !sc.Free {
			waitArrival(n, 5*time.Second) // parked at its first gate (or finished)
		}
	}

	close(startAll)
	// ---- schedule replay
	stuck := ""
	if !sc.Free {
		for i, st := range sc.Sched {
			name, label := st[0], st[1]
			wt := 2 * time.Second
			if slowSteps >= 5 {
				wt = 100 * time.Millisecond // this build keeps missing expected steps: do not stall the whole run
			}
			p := waitParked(name, wt)
			if p == nil {
				slowSteps++
				S.mu.Lock()
				fin := S.done[name]
				S.mu.Unlock()
				emit(M{"ev": "drift", "at": i, "want": label, "proc": name, "got": map[bool]string{true: "finished", false: "absent"}[fin]})
				break
			}
			if p.point != label {
				// the iteration order of a Go map (children / scopes snapshot) is not ours to choose: when the
				// schedule diverges after such a snapshot the caller replays the scenario again
				for _, st := range sc.Sched[:i] {
					if st[1] == "P_snapshot" || st[1] == "C_children" {
						orderDrift = true
					}
				}
				emit(M{"ev": "drift", "at": i, "want": label, "proc": name, "got": p.point, "order": orderDrift})
				break
			}
			emit(M{"ev": "step", "th": name, "at": label})
			S.mu.Lock()
			delete(S.parkedQ, name)
			S.running = name
			S.mu.Unlock()
			close(p.wake)
			if !waitArrival(name, 5*time.Second) {
				stuck = name + "@" + label
				emit(M{"ev": "stuck", "th": name, "at": label})
				break
			}
		}
	}
	_ = stuck
	// ---- open all gates: the rest runs freely
	S.mu.Lock()
	S.active = false
	for n, p := range S.parkedQ {
		close(p.wake)
		delete(S.parkedQ, n)
	}
	S.mu.Unlock()
	allDone := make(chan struct{})
	go func() { wg.Wait(); close(allDone) }()
	select {
	case <-allDone:
	case <-time.After(6 * time.Second):
		for _, n := range names {
			select {
			case <-finished[n]:
			default:
				emit(M{"ev": "hang", "th": n})
			}
		}
		emit(M{"ev": "abort"})
		flushOut()
		os.Exit(3) // goroutines are stuck: the process cannot continue with further scenarios
	}
	// drain arrival notifications
	for len(S.arrive) > 0 {
		<-S.arrive
	}
	emit(M{"ev": "joined"})
	// ---- every scope a thread created is used once more: a descendant of a scope that has been closed must
	// refuse (closing a scope closes all its descendants, also those created while it was being closed)
	for _, n := range names {
		if sc.Ops[n].Op == "create" {
			R.mu.Lock()
			_, ok := R.scopes["n_"+n]
			R.mu.Unlock()
			if ok {
				doOp(&Op{Op: "resolve", Sc: "n_" + n, T: "scope", K: "-"})
			}
		}
	}
	// ---- final accounting: close the provider sequentially, then observe
	doOp(&Op{Op: "closeprov"})
	doObs(g0)
	R.quiet = true
	for _, c := range R.cancels {
		c()
	}
	S = nil
	return orderDrift
}

// waitArrival waits until process `name` parks again or finishes.
func waitArrival(name string, d time.Duration) bool {
	deadline := time.After(d)
	for {
		S.mu.Lock()
		_, isParked := S.parkedQ[name]
		fin := S.done[name]
		S.mu.Unlock()
		if isParked || fin {
			return true
		}
		select {
		case <-S.arrive:
		case <-deadline:
			return false
		}
	}
}

// waitParked waits until process `name` is parked at a gate (watchers arrive asynchronously
// after their context was cancelled).
func waitParked(name string, d time.Duration) *parked {
	deadline := time.After(d)
	for {
		S.mu.Lock()
		p := S.parkedQ[name]
		fin := S.done[name]
		S.mu.Unlock()
		if p != nil {
			return p
		}
		if fin {
			return nil
		}
		select {
		case <-S.arrive:
		case <-deadline:
			return nil
		}
	}
}

func sortStrings(a []string) {
	for i := 1; i < len(a); i++ {
		for j := i; j > 0 && a[j] < a[j-1]; j-- {
			a[j], a[j-1] = a[j-1], a[j]
		}
	}
}

// bareScenario runs a program with real parallelism and NO recorder: no hook is installed, constructors
// and Close methods touch no shared harness state, nothing is logged.  Used under the race detector, where
// the recorder's own mutexes would add happens-before edges that could hide a race inside the container.
func bareScenario(sc *CScenario, repeat int) {
	R.cfg = &sc.Cfg
	for rep := 0; rep < repeat; rep++ {
		R.fnReg = map[string]string{}
		c := godi.NewCollection()
		for i := range R.cfg.Regs {
			r := &R.cfg.Regs[i]
			svc, err := serviceValue(r)
			if err == nil {
				err = addReg(c, r, svc)
			}
			if err == nil {
				err = applyRemovals(c, r)
			}
			if err != nil {
				fmt.Fprintln(os.Stderr, "bare: registration failed:", err)
				os.Exit(4)
			}
		}
		p, err := c.Build()
		if err != nil {
			fmt.Fprintln(os.Stderr, "bare: build failed:", err)
			os.Exit(4)
		}
		scopes := map[string]godi.Scope{}
		cancels := map[string]context.CancelFunc{}
		for _, s := range sc.Init {
			if s == "s1" {
				ctx, cancel := context.WithCancel(context.Background())
				sc1, _ := p.CreateScope(ctx)
				scopes["s1"], cancels["s1"] = sc1, cancel
			} else if scopes["s1"] != nil {
				sc2, _ := scopes["s1"].CreateScope(nil)
				scopes[s] = sc2
			}
		}
		for _, pk := range sc.Pre {
			tk := concKeys[pk[1]]
			if sco := scopes[pk[0]]; sco != nil {
				if tk[1] != "-" {
					sco.GetKeyed(typeByName(tk[0]), tk[1])
				} else {
					sco.Get(typeByName(tk[0]))
				}
			}
		}
		var wg sync.WaitGroup
		start := make(chan struct{})
		for _, o := range sc.Ops {
			o := o
			wg.Add(1)
			go func() {
				defer wg.Done()
				defer func() { recover() }()
				<-start
				var tg godi.Provider = p
				if o.S != "prov" && o.S != "root" {
					if sco := scopes[o.S]; sco != nil {
						tg = sco
					}
				}
				switch o.Op {
				case "get", "pget":
					tk := concKeys[o.K]
					if tk[1] != "-" {
						tg.GetKeyed(typeByName(tk[0]), tk[1])
					} else {
						tg.Get(typeByName(tk[0]))
					}
				case "create":
					if s, err := tg.CreateScope(nil); err == nil {
						s.Get(typeByName("S1"))
					}
				case "close":
					tg.Close()
				case "pclose":
					p.Close()
				case "cancel":
					if c := cancels[o.S]; c != nil {
						c()
					}
				}
			}()
		}
		close(start)
		wg.Wait()
		p.Close()
		for _, c := range cancels {
			c()
		}
	}
}

func concMain(args []string) {
	fs := flag.NewFlagSet("conc", flag.ExitOnError)
	skip := fs.Int("skip", 0, "skip the first n scenarios")
	bare := fs.Int("bare", 0, "run each program n times with no recorder and no hooks (race-detector runs)")
	fs.Parse(args)
	if *bare > 0 {
		// no recorder, but a hook that stretches the windows between critical sections at random.  It uses no
		// lock, channel or atomic (which would order the goroutines for the race detector): only the clock.
		godi.VerifHook = func(gate bool, point string, args ...any) {
			if !gate {
				return
			}
			x := time.Now().UnixNano()
			switch (x / 7) % 4 {
			case 0:
				time.Sleep(time.Duration(x%150) * time.Microsecond)
			case 1:
				runtime.Gosched()
			}
		}
		R = newRun(&Cfg{}) // assigned once: goroutines of the container may outlive a program
		R.bare, R.quiet = true, true
		S = nil
		sc := bufio.NewScanner(os.Stdin)
		sc.Buffer(make([]byte, 1<<20), 1<<26)
		nprog := 0
		for sc.Scan() {
			var s CScenario
			if err := json.Unmarshal(sc.Bytes(), &s); err != nil {
				fmt.Fprintln(os.Stderr, "bad scenario:", err)
				os.Exit(4)
			}
			// a program that does not finish is a deadlock (or a lost wake-up) in the container: report which one
			// and stop; the driver continues with the programs after it in a fresh process
			nprog++
			line := append([]byte(nil), sc.Bytes()...)
			n := nprog
			watchdog := time.AfterFunc(40*time.Second, func() {
				fmt.Fprintf(os.Stderr, "\nBARE-HANG index=%d program=%s\n", n, line)
				os.Exit(3)
			})
			bareScenario(&s, *bare)
			watchdog.Stop()
		}
		return
	}
	godi.VerifHook = concHook
	sc := bufio.NewScanner(os.Stdin)
	sc.Buffer(make([]byte, 1<<20), 1<<26)
	run := 0
	for sc.Scan() {
		run++
		if run <= *skip {
			continue
		}
		var s CScenario
		raw := append([]byte(nil), sc.Bytes()...)
		if err := json.Unmarshal(raw, &s); err != nil {
			fmt.Fprintln(os.Stderr, "bad scenario:", err)
			flushOut()
			os.Exit(4)
		}
		s.Raw = raw
		if s.Storm != nil {
			stormScenario(&s, run)
			flushOut()
			continue
		}
		for attempt := 0; attempt < 10; attempt++ {
			if !concScenario(&s, run) {
				break
			}
		}
		flushOut()
	}
}

var _ = errors.Is
var _ = context.Background

func init() { modes["conc"] = concMain }
