package main

import (
	"context"
	"errors"
	"fmt"
	"reflect"
	"sync/atomic"
	"time"

	godi "github.com/junioryono/godi/v4"
)

// abuse battery (C15): API calls with nil / zero / unregistered / mismatched arguments and calls on closed
// providers and scopes.  Each call is recorded with its error classes and whether it panicked; the expected
// outcome of every call is a table in the specification (Container.tla, AbuseTable).

func abuseS0() (*S0, error) { return &S0{Inst{ID: 900001}}, nil }
func abuseS1() (*S1, error) { return &S1{Inst{ID: 900002}}, nil }
func abuseS2() (*S2, error) { return &S2{Inst{ID: 900003}}, nil }

type unregistered struct{}

// error types that are not the error interface: a pointer type (nil means success) and a struct type with a
// value receiver (can never be nil)
type ptrErr struct{ msg string }

func (e *ptrErr) Error() string { return e.msg }

type valErr struct{ msg string }

func (e valErr) Error() string { return e.msg }

type errT1 struct{}
type errT2 struct{}
type errT3 struct{}

var thePtrErr = &ptrErr{"verif: scripted pointer-typed failure"}

// disposable services that are VALUES (value receiver Close): one that is not comparable and one whose instances are
// all equal.  Every constructed value is owned by the scope and closed exactly once.
type valDispN struct{ payload []int }

var valDispNCloses int64

func (v valDispN) Close() error { atomic.AddInt64(&valDispNCloses, 1); return nil }

type valDispE struct{ tag string }

var valDispECloses int64

func (v valDispE) Close() error { atomic.AddInt64(&valDispECloses, 1); return nil }

func valueDisposableBattery() {
	c := godi.NewCollection()
	c.AddTransient(func() valDispN { return valDispN{payload: []int{1}} })
	c.AddTransient(func() valDispE { return valDispE{tag: "lease"} })
	p, err := c.Build()
	if err != nil {
		return
	}
	abuseCall("value_disposables_closed", func() error {
		atomic.StoreInt64(&valDispNCloses, 0)
		atomic.StoreInt64(&valDispECloses, 0)
		s, err := p.CreateScope(nil)
		if err != nil {
			return err
		}
		for i := 0; i < 3; i++ { // consecutive instances of one type
			if _, err := godi.Resolve[valDispE](s); err != nil {
				return err
			}
		}
		for i := 0; i < 3; i++ {
			if _, err := godi.Resolve[valDispN](s); err != nil {
				return err
			}
		}
		done := make(chan error, 1)
		go func() { done <- s.Close() }()
		select {
		case err := <-done:
			if err != nil {
				return err
			}
		case <-time.After(5 * time.Second):
			return fmt.Errorf("Close did not return")
		}
		if n, e := atomic.LoadInt64(&valDispNCloses), atomic.LoadInt64(&valDispECloses); n != 3 || e != 3 {
			return fmt.Errorf("3 + 3 value instances constructed, closed %d + %d", n, e)
		}
		return nil
	})
	p.Close()
}

// errorTypeBattery: constructors whose last result is a concrete type implementing error
func errorTypeBattery() {
	wraps := func(err error) error {
		if err != nil && !errors.Is(err, thePtrErr) {
			return fmt.Errorf("lost cause: %w", err)
		}
		return err
	}
	// pointer error type, non-nil: the failure is reported and wraps the constructor's own error; a retry runs again
	{
		calls := 0
		c := godi.NewCollection()
		c.AddScoped(func() (*errT1, *ptrErr) {
			calls++
			if calls == 1 {
				return nil, thePtrErr
			}
			return &errT1{}, nil
		})
		p, err := c.Build()
		if err == nil {
			s, _ := p.CreateScope(nil)
			abuseCall("ctor_pointer_error_reported", func() error {
				v, err := godi.Resolve[*errT1](s)
				if err == nil {
					return nil
				}
				if v != nil {
					return fmt.Errorf("value returned with an error")
				}
				if !errors.Is(err, thePtrErr) {
					return fmt.Errorf("lost cause: %v", err)
				}
				return err
			})
			abuseCall("ctor_pointer_error_retry", func() error {
				v, err := godi.Resolve[*errT1](s)
				if err == nil && (v == nil || calls != 2) {
					return fmt.Errorf("retry did not run the constructor again (calls=%d)", calls)
				}
				return err
			})
			p.Close()
		}
	}
	// pointer error type as a singleton: Build fails and wraps it
	{
		c := godi.NewCollection()
		c.AddSingleton(func() (*errT2, *ptrErr) { return nil, thePtrErr })
		abuseCall("ctor_pointer_error_build", func() error {
			p, err := c.Build()
			if err == nil {
				p.Close()
			}
			return wraps(err)
		})
	}
	// struct error type (never nil): no panic anywhere; whatever the verdict of the registration, nothing escapes
	{
		c := godi.NewCollection()
		var addErr error
		abuseCall("ctor_struct_error_add", func() error {
			addErr = c.AddScoped(func() (*errT3, valErr) { return &errT3{}, valErr{"verif: value-typed failure"} })
			return nil
		})
		if addErr == nil {
			var p godi.Provider
			abuseCall("ctor_struct_error_build", func() error {
				var err error
				p, err = c.Build()
				_ = err
				return nil
			})
			if p != nil {
				abuseCall("ctor_struct_error_resolve", func() error {
					s, err := p.CreateScope(nil)
					if err != nil {
						return nil
					}
					godi.Resolve[*errT3](s)
					return nil
				})
				p.Close()
			}
		}
	}
}

func abuseCall(name string, f func() error) {
	ev := M{"ev": "abuse", "th": "main", "call": name, "err": []string{}, "panic": false}
	func() {
		defer func() {
			if r := recover(); r != nil {
				ev["panic"] = true
				ev["panicmsg"] = fmt.Sprint(r)
			}
		}()
		ev["err"] = classify(f())
	}()
	emit(ev)
	flushOut() // a later call may take the whole process down
}

func doAbuse() {
	R.quiet = true
	defer func() { R.quiet = false }()
	errorTypeBattery()
	valueDisposableBattery()
	reentrantBattery()
	outNilFieldBattery()
	abnormalBattery()
	lazyBattery()
	tS0, tS1, tS2 := reflect.TypeOf((*S0)(nil)), reflect.TypeOf((*S1)(nil)), reflect.TypeOf((*S2)(nil))
	tU := reflect.TypeOf((*unregistered)(nil))
	c := godi.NewCollection()
	abuseCall("add_nil", func() error { return c.AddSingleton(nil) })
	abuseCall("add_typed_nil_pointer", func() error { return c.AddSingleton((*S0)(nil)) })
	abuseCall("add_nil_func", func() error { var f func() *S0; return c.AddScoped(f) })
	abuseCall("add_name_and_group", func() error { return c.AddSingleton(abuseS0, godi.Name("n"), godi.Group("g")) })
	abuseCall("add_nil_option", func() error { return c.AddSingleton(abuseS0, nil) })
	abuseCall("add_duplicate", func() error { return c.AddSingleton(abuseS0) })
	abuseCall("add_keyed", func() error { return c.AddScoped(abuseS1, godi.Name("k")) })
	abuseCall("add_group", func() error { return c.AddTransient(abuseS2, godi.Group("g")) })
	abuseCall("add_modules_nil", func() error { return c.AddModules(nil, nil) })
	abuseCall("add_module_failing", func() error {
		return c.AddModules(godi.NewModule("outer", godi.NewModule("inner", godi.AddSingleton(abuseS0))))
	})
	abuseCall("contains_nil", func() error {
		c.Contains(nil)
		c.ContainsKeyed(nil, "k")
		c.Remove(nil)
		c.RemoveKeyed(nil, nil)
		return nil
	})
	abuseCall("build_cancelled_context", func() error {
		ctx, cancel := context.WithCancel(context.Background())
		cancel()
		_, err := c.BuildWithContext(ctx)
		return err
	})
	abuseCall("build_nil_options", func() error {
		p, err := c.BuildWithOptions(nil)
		if err == nil {
			p.Close()
		}
		return err
	})
	var p godi.Provider
	abuseCall("build", func() error { var err error; p, err = c.Build(); return err })
	if p == nil {
		return
	}
	abuseCall("get_nil_type", func() error { _, err := p.Get(nil); return err })
	abuseCall("getkeyed_nil_type", func() error { _, err := p.GetKeyed(nil, "k"); return err })
	abuseCall("getkeyed_nil_key", func() error { _, err := p.GetKeyed(tS1, nil); return err })
	abuseCall("getgroup_nil_type", func() error { _, err := p.GetGroup(nil, "g"); return err })
	abuseCall("getgroup_empty_name", func() error { _, err := p.GetGroup(tS2, ""); return err })
	abuseCall("get_unregistered", func() error { _, err := p.Get(tU); return err })
	abuseCall("getkeyed_unregistered_key", func() error { _, err := p.GetKeyed(tS1, "zz"); return err })
	abuseCall("get_keyed_service_without_key", func() error { _, err := p.Get(tS1); return err })
	abuseCall("getgroup_unknown_group", func() error {
		vs, err := p.GetGroup(tS2, "nogroup")
		if err == nil && len(vs) != 0 {
			return fmt.Errorf("unknown group is not empty")
		}
		return err
	})
	abuseCall("get_ok", func() error { _, err := p.Get(tS0); return err })
	abuseCall("resolve_nil_provider", func() error { _, err := godi.Resolve[*S0](nil); return err })
	abuseCall("resolvekeyed_nil_provider", func() error { _, err := godi.ResolveKeyed[*S1](nil, "k"); return err })
	abuseCall("resolvegroup_nil_provider", func() error { _, err := godi.ResolveGroup[*S2](nil, "g"); return err })
	abuseCall("resolvekeyed_nil_key", func() error { _, err := godi.ResolveKeyed[*S1](p, nil); return err })
	abuseCall("resolvegroup_empty_name", func() error { _, err := godi.ResolveGroup[*S2](p, ""); return err })
	abuseCall("resolve_unregistered_interface", func() error { _, err := godi.Resolve[I0](p); return err })
	abuseCall("resolve_ok", func() error { _, err := godi.Resolve[*S0](p); return err })
	abuseCall("resolvegroup_ok", func() error { _, err := godi.ResolveGroup[*S2](p, "g"); return err })
	abuseCall("mustresolve_ok", func() error { godi.MustResolve[*S0](p); return nil })
	abuseCall("mustresolve_unregistered", func() error { godi.MustResolve[*unregistered](p); return nil })
	abuseCall("mustresolvekeyed_unregistered", func() error { godi.MustResolveKeyed[*S1](p, "zz"); return nil })
	abuseCall("mustresolvegroup_empty_name", func() error { godi.MustResolveGroup[*S2](p, ""); return nil })
	abuseCall("fromcontext_nil", func() error { _, err := godi.FromContext(nil); return err })
	abuseCall("fromcontext_no_scope", func() error { _, err := godi.FromContext(context.Background()); return err })
	var s godi.Scope
	abuseCall("createscope_nil_context", func() error { var err error; s, err = p.CreateScope(nil); return err })
	if s != nil {
		abuseCall("scope_get_nil_type", func() error { _, err := s.Get(nil); return err })
		abuseCall("scope_getkeyed_nil_key", func() error { _, err := s.GetKeyed(tS1, nil); return err })
		abuseCall("scope_getkeyed_ok", func() error { _, err := s.GetKeyed(tS1, "k"); return err })
		abuseCall("scope_close", func() error { return s.Close() })
		abuseCall("scope_close_again", func() error { return s.Close() })
		abuseCall("closed_scope_get", func() error { _, err := s.Get(tS0); return err })
		abuseCall("closed_scope_getkeyed", func() error { _, err := s.GetKeyed(tS1, "k"); return err })
		abuseCall("closed_scope_getgroup", func() error { _, err := s.GetGroup(tS2, "g"); return err })
		abuseCall("closed_scope_getgroup_empty", func() error { _, err := s.GetGroup(tS2, "nogroup"); return err })
		abuseCall("closed_scope_resolvegroup_empty", func() error { _, err := godi.ResolveGroup[*S0](s, "nogroup"); return err })
		abuseCall("closed_scope_createscope", func() error { _, err := s.CreateScope(context.Background()); return err })
		abuseCall("closed_scope_resolve", func() error { _, err := godi.Resolve[*S0](s); return err })
	}
	abuseCall("provider_close", func() error { return p.Close() })
	abuseCall("provider_close_again", func() error { return p.Close() })
	abuseCall("closed_provider_get", func() error { _, err := p.Get(tS0); return err })
	abuseCall("closed_provider_getkeyed", func() error { _, err := p.GetKeyed(tS1, "k"); return err })
	abuseCall("closed_provider_getgroup", func() error { _, err := p.GetGroup(tS2, "g"); return err })
	abuseCall("closed_provider_getgroup_empty", func() error { _, err := p.GetGroup(tS2, "nogroup"); return err })
	abuseCall("closed_provider_createscope", func() error { _, err := p.CreateScope(context.Background()); return err })
	abuseCall("closed_provider_mustresolve", func() error { godi.MustResolve[*S0](p); return nil })
}
