package main

import (
	"context"
	"reflect"

	"github.com/junioryono/godi/v4"
)

// The typed helpers godi.Resolve[T], ResolveKeyed[T] and ResolveGroup[T] are the API most callers use; they are
// wrappers over Get/GetKeyed/GetGroup.  Every second scenario of the sequential harness resolves through them, so
// that both surfaces are bound to the same specification.
func viaGeneric() bool { return runNo%2 == 1 }

func anyErr[T any](v T, err error) (any, error) {
	if err != nil {
		return nil, err
	}
	return v, nil
}

func anys[T any](vs []T, err error) ([]any, error) {
	if err != nil {
		return nil, err
	}
	out := make([]any, len(vs))
	for i, v := range vs {
		out[i] = v
	}
	return out, nil
}

func getVia(tg godi.Provider, tname string, t reflect.Type) (any, error) {
	if viaGeneric() {
		switch tname {
		case "S0":
			return anyErr(godi.Resolve[*S0](tg))
		case "S1":
			return anyErr(godi.Resolve[*S1](tg))
		case "S2":
			return anyErr(godi.Resolve[*S2](tg))
		case "S3":
			return anyErr(godi.Resolve[*S3](tg))
		case "I0":
			return anyErr(godi.Resolve[I0](tg))
		case "I1":
			return anyErr(godi.Resolve[I1](tg))
		case "ctx":
			return anyErr(godi.Resolve[context.Context](tg))
		case "scope":
			return anyErr(godi.Resolve[godi.Scope](tg))
		case "prov":
			return anyErr(godi.Resolve[godi.Provider](tg))
		}
	}
	return tg.Get(t)
}

func getKeyedVia(tg godi.Provider, tname string, t reflect.Type, k any) (any, error) {
	if viaGeneric() {
		switch tname {
		case "S0":
			return anyErr(godi.ResolveKeyed[*S0](tg, k))
		case "S1":
			return anyErr(godi.ResolveKeyed[*S1](tg, k))
		case "S2":
			return anyErr(godi.ResolveKeyed[*S2](tg, k))
		case "S3":
			return anyErr(godi.ResolveKeyed[*S3](tg, k))
		case "I0":
			return anyErr(godi.ResolveKeyed[I0](tg, k))
		case "I1":
			return anyErr(godi.ResolveKeyed[I1](tg, k))
		}
	}
	return tg.GetKeyed(t, k)
}

func getGroupVia(tg godi.Provider, tname string, t reflect.Type, g string) ([]any, error) {
	if viaGeneric() {
		switch tname {
		case "S0":
			return anys(godi.ResolveGroup[*S0](tg, g))
		case "S1":
			return anys(godi.ResolveGroup[*S1](tg, g))
		case "S2":
			return anys(godi.ResolveGroup[*S2](tg, g))
		case "S3":
			return anys(godi.ResolveGroup[*S3](tg, g))
		case "I0":
			return anys(godi.ResolveGroup[I0](tg, g))
		case "I1":
			return anys(godi.ResolveGroup[I1](tg, g))
		}
	}
	return tg.GetGroup(t, g)
}
