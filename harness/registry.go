package main

import (
	"bufio"
	"context"
	"encoding/json"
	"errors"
	"fmt"
	"os"
	"reflect"
	"strconv"

	godi "github.com/junioryono/godi/v4"
)

// registry mode: sequences of Add*/Remove/RemoveKeyed/AddModules/Build calls on a collection,
// the full query vector after every call, and for every built provider which constructors ran
// and what is resolvable - re-probed after every later edit of the collection.

type RItem struct {
	RegCfg
	Bad string `json:"bad"`
}

type RLeaf struct {
	Kind  string   `json:"kind"`
	Item  string   `json:"item"`
	T     string   `json:"t"`
	K     string   `json:"k"`
	Chain []string `json:"chain"`
}

type ROp struct {
	Op     string  `json:"op"`
	Item   string  `json:"item"`
	T      string  `json:"t"`
	K      string  `json:"k"`
	Leaves []RLeaf `json:"leaves"`
}

type RScenario struct {
	Items map[string]RItem `json:"items"`
	Ops   []ROp            `json:"ops"`
}

var qTypes = []string{"S0", "S1", "S2", "S3", "I0", "I1"}

// ---- constructors / values for the calls that must be rejected

type ctxImpl struct{ context.Context }

func newCtxImpl() *ctxImpl          { return &ctxImpl{context.Background()} }
func retCtx() context.Context       { return context.Background() }
func retProv() godi.Provider        { return nil }
func multiScope() (*S0, godi.Scope) { v, _ := mk0("B_multiscope", true); return v, nil }
func outProvCtor() (outProv, error) { v, err := mk0("B_outprov", true); return outProv{A: v}, err }
func plainS0ForBad() (*S0, error)   { return mk0("B_plain", true) }
func outNameGroupCtor() (outNameGroup, error) {
	v, err := mk3("B_outnamegroup", true)
	w, _ := mk0("B_outnamegroup0", true)
	return outNameGroup{A: v, B: w}, err
}

// a result-object field carrying both a name and a group tag: the same invalid combination as
// godi.Name + godi.Group on one registration
type outNameGroup struct {
	godi.Out
	A *S3
	B *S0 `name:"k" group:"g"`
}

func lifetimeAdder(c godi.Collection, life string) func(any, ...godi.AddOption) error {
	switch life {
	case "singleton":
		return c.AddSingleton
	case "scoped":
		return c.AddScoped
	}
	return c.AddTransient
}

type outProv struct {
	godi.Out
	A *S0
	P godi.Provider
}

// reserved types in a secondary output position that is also a group member
type outCtxGroup struct {
	godi.Out
	A *S3
	C context.Context `group:"g"`
}

func outCtxGroupCtor() (outCtxGroup, error) {
	v, err := mk3("B_outctxgroup", true)
	return outCtxGroup{A: v, C: context.TODO()}, err
}
func multiScopeGroup() (*S3, godi.Scope) { v, _ := mk3("B_multiscopegroup", true); return v, nil }

// keyOf: "#n" stands for the integer key n, anything else for the string itself
func keyOf(k string) any {
	if len(k) > 1 && k[0] == '#' {
		if n, err := strconv.Atoi(k[1:]); err == nil {
			return n
		}
	}
	return k
}

// addItem performs the Add* call an item stands for.
func addItem(c godi.Collection, it *RItem) error {
	add := lifetimeAdder(c, it.Life)
	switch it.Bad {
	case "":
		svc, err := serviceValue(&it.RegCfg)
		if err != nil {
			fmt.Fprintln(os.Stderr, "registry: bad item:", err)
			flushOut()
			os.Exit(4)
		}
		return addReg(c, &it.RegCfg, svc)
	case "nameandgroup":
		return add(plainS0ForBad, godi.Name("k"), godi.Group("g"))
	case "backquote":
		return add(plainS0ForBad, godi.Name("a`b"))
	case "asstruct":
		return add(plainS0ForBad, godi.As[S3]())
	case "nilctor":
		return add(nil)
	case "nilfunc":
		var f func() *S0
		return add(f)
	case "retctx":
		return add(retCtx)
	case "retprov":
		return add(retProv)
	case "asctx":
		return add(newCtxImpl, godi.As[context.Context]())
	case "multiscope":
		return add(multiScope)
	case "outprov":
		return add(outProvCtor)
	case "outnamegroup":
		return add(outNameGroupCtor)
	case "outctxgroup":
		return add(outCtxGroupCtor)
	case "multiscopegroup":
		return add(multiScopeGroup, godi.Group("g"))
	case "asctxgroup":
		return add(newCtxImpl, godi.As[context.Context](), godi.Group("g"))
	}
	fmt.Fprintln(os.Stderr, "registry: unknown bad kind", it.Bad)
	flushOut()
	os.Exit(4)
	return nil
}

func moduleOfItem(it *RItem) godi.ModuleOption {
	return func(c godi.Collection) error { return addItem(c, it) }
}

func removeOption(t string) godi.ModuleOption {
	switch t {
	case "S0":
		return godi.Remove[*S0]()
	case "S1":
		return godi.Remove[*S1]()
	case "S2":
		return godi.Remove[*S2]()
	case "I0":
		return godi.Remove[I0]()
	}
	return godi.Remove[*S3]()
}

func removeKeyedOption(t, k string) godi.ModuleOption {
	switch t {
	case "S0":
		return godi.RemoveKeyed[*S0](k)
	case "I0":
		return godi.RemoveKeyed[I0](k)
	case "S1":
		return godi.RemoveKeyed[*S1](k)
	}
	return godi.RemoveKeyed[*S2](k)
}

func leafOption(items map[string]RItem, lf *RLeaf) godi.ModuleOption {
	switch lf.Kind {
	case "add":
		it := items[lf.Item]
		return moduleOfItem(&it)
	case "rm":
		return removeOption(lf.T)
	case "rmk":
		return removeKeyedOption(lf.T, lf.K)
	}
	return nil // nil entry
}

// buildTree turns the left-to-right leaves with their module chains into nested NewModule calls:
// adjacent leaves share the module instances of their common chain prefix.
func buildTree(items map[string]RItem, leaves []RLeaf, depth int) []godi.ModuleOption {
	var outp []godi.ModuleOption
	for i := 0; i < len(leaves); {
		lf := &leaves[i]
		if len(lf.Chain) <= depth {
			outp = append(outp, leafOption(items, lf))
			i++
			continue
		}
		name := lf.Chain[depth]
		j := i
		for j < len(leaves) && len(leaves[j].Chain) > depth && leaves[j].Chain[depth] == name {
			j++
		}
		outp = append(outp, godi.NewModule(name, buildTree(items, leaves[i:j], depth+1)...))
		i = j
	}
	return outp
}

func moduleChain(err error) []string {
	chain := []string{}
	for err != nil {
		var me godi.ModuleError
		var pme *godi.ModuleError
		switch {
		case errors.As(err, &me):
			chain = append(chain, me.Module)
			err = me.Cause
		case errors.As(err, &pme):
			chain = append(chain, pme.Module)
			err = pme.Cause
		default:
			return chain
		}
	}
	return chain
}

func lifeName(l godi.Lifetime) string {
	switch l {
	case godi.Singleton:
		return "singleton"
	case godi.Scoped:
		return "scoped"
	}
	return "transient"
}

func queryVector(c godi.Collection) M {
	contains, ckeyed := M{}, M{}
	for _, t := range qTypes {
		contains[t] = c.Contains(typeByName(t))
		ckeyed[t] = c.ContainsKeyed(typeByName(t), "k")
	}
	slice := []M{}
	for _, d := range c.ToSlice() {
		if d == nil {
			slice = append(slice, M{"t": "nil", "k": "-", "g": "-", "life": "-"})
			continue
		}
		g := d.Group
		k := "-"
		if g == "" {
			g = "-"
			k = keyStr(d.Key)
		}
		slice = append(slice, M{"t": nameOfType(d.Type), "k": k, "g": g, "life": lifeName(d.Lifetime)})
	}
	return M{"contains": contains, "ckeyed": ckeyed, "count": c.Count(), "slice": slice}
}

// matrix: which (type,key) identities resolve in a fresh scope, and the size of each group.
// matrixRuns: how often each registration's constructor ran while the last matrix was taken (one scope, every
// identity resolved once, every group once)
var matrixRuns = M{}

func matrix(p godi.Provider) (res []string, groups M, fail string) {
	R.mu.Lock()
	before := map[string]int{}
	for k, v := range R.inv {
		before[k] = v
	}
	R.mu.Unlock()
	defer func() {
		R.mu.Lock()
		runs := M{}
		for k, v := range R.inv {
			if d := v - before[k]; d > 0 {
				runs[k] = d
			}
		}
		R.mu.Unlock()
		matrixRuns = runs
	}()
	res = []string{}
	groups = M{}
	for _, t := range qTypes {
		groups[t] = -1
	}
	sc, err := p.CreateScope(context.Background())
	if err != nil {
		return res, groups, "createscope: " + err.Error()
	}
	defer sc.Close()
	for _, t := range qTypes {
		for _, k := range []string{"-", "k"} {
			var e error
			var v any
			if k == "-" {
				v, e = sc.Get(typeByName(t))
			} else {
				v, e = sc.GetKeyed(typeByName(t), k)
			}
			if e == nil {
				res = append(res, t+"/"+k+"="+regOf(v)) // which registration produced what was resolved
			} else if !errors.Is(e, godi.ErrServiceNotFound) {
				res = append(res, t+"/"+k+"!"+classify(e)[0])
			}
		}
		vs, e := sc.GetGroup(typeByName(t), "g")
		if e == nil {
			groups[t] = len(vs)
		}
	}
	return res, groups, ""
}

func regOf(v any) string {
	switch x := v.(type) {
	case *S0:
		return x.Reg
	case *S1:
		return x.Reg
	case *S2:
		return x.Reg
	case *S3:
		return x.Reg
	}
	return "?"
}

type ranRec struct {
	events []string
}

func registryScenario(sc *RScenario, raw []byte, run int) {
	runNo = run
	R = newRun(&Cfg{})
	R.quiet = true // constructor events are not part of registry traces; invocations are counted below
	var itemsRaw struct {
		Items json.RawMessage `json:"items"`
	}
	json.Unmarshal(raw, &itemsRaw)
	emit(M{"ev": "reset", "run": run, "items": itemsRaw.Items})
	c := godi.NewCollection()
	// twin: in scenarios with module applications every call is ALSO issued directly on a second collection (module
	// leaves one by one, left to right, stopping at the first failure)
	twin := godi.NewCollection()
	var lastMods []godi.ModuleOption // the module values of the last application (applied again by "modulesagain")
	var providers []godi.Provider
	defer func() {
		for _, p := range providers {
			func() {
				defer func() { recover() }()
				p.Close()
			}()
		}
	}()
	itemOf := func(id string) *RItem {
		it, ok := sc.Items[id]
		if !ok {
			fmt.Fprintln(os.Stderr, "registry: unknown item", id)
			flushOut()
			os.Exit(4)
		}
		it.RegCfg.ID = id
		return &it
	}
	for i := range sc.Ops {
		o := &sc.Ops[i]
		func() {
			defer func() {
				if r := recover(); r != nil {
					emit(M{"ev": "panic", "op": o.Op, "msg": fmt.Sprint(r)})
				}
			}()
			switch o.Op {
			case "add":
				it := itemOf(o.Item)
				ev := M{"ev": "add", "item": o.Item, "err": []string{}, "panic": false}
				func() {
					defer func() {
						if r := recover(); r != nil {
							ev["panic"] = true
							ev["err"] = []string{"panic"}
						}
					}()
					ev["err"] = classify(addItem(c, it))
				}()
				emit(ev)
			case "remove":
				c.Remove(typeByName(o.T))
				twin.Remove(typeByName(o.T))
				emit(M{"ev": "remove", "t": o.T})
			case "removekeyed":
				c.RemoveKeyed(typeByName(o.T), keyOf(o.K))
				twin.RemoveKeyed(typeByName(o.T), keyOf(o.K))
				emit(M{"ev": "removekeyed", "t": o.T, "k": o.K})
			case "modules", "modulesagain":
				for li := range o.Leaves {
					if o.Leaves[li].Kind == "add" {
						itemOf(o.Leaves[li].Item)
					}
				}
				items := map[string]RItem{}
				for id := range sc.Items {
					items[id] = *itemOf(id)
				}
				// twin: the same calls issued directly, left to right, stopping at the first failure
				savedFnReg := R.fnReg // which registration a constructor belongs to, as known from earlier calls on c
				R.fnReg = map[string]string{}
				for li := range o.Leaves {
					// the direct calls themselves (not the module builders applied by hand)
					lf := &o.Leaves[li]
					var err error
					switch lf.Kind {
					case "add":
						it := items[lf.Item]
						err = addItem(twin, &it)
					case "rm":
						twin.Remove(typeByName(lf.T))
					case "rmk":
						twin.RemoveKeyed(typeByName(lf.T), lf.K)
					}
					if err != nil {
						break
					}
				}
				R.fnReg = savedFnReg // the twin used the same constructors: what c knows is what counts
				ev := M{"ev": "modules", "leaves": o.Leaves, "err": []string{}, "chain": []string{}, "panic": false}
				func() {
					defer func() {
						if r := recover(); r != nil {
							ev["panic"] = true
							ev["err"] = []string{"panic"}
						}
					}()
					if o.Op == "modules" || lastMods == nil {
						lastMods = buildTree(items, o.Leaves, 0)
					}
					err := c.AddModules(lastMods...)
					ev["err"] = classify(err)
					ev["chain"] = moduleChain(err)
				}()
				emit(ev)
				emit(M{"ev": "twin", "a": queryVector(c), "b": queryVector(twin)})
			case "build":
				R.mu.Lock()
				R.inv = map[string]int{}
				R.mu.Unlock()
				p, err := c.Build()
				ev := M{"ev": "built", "p": len(providers) + 1, "err": classify(err), "ran": []string{}, "resolvable": []string{}, "groups": M{}}
				if err == nil {
					ran := []string{}
					R.mu.Lock()
					for reg, n := range R.inv {
						for k := 0; k < n; k++ {
							ran = append(ran, reg)
						}
					}
					R.mu.Unlock()
					ev["ran"] = ran
					res, groups, fail := matrix(p)
					ev["resolvable"], ev["groups"], ev["mruns"] = res, groups, matrixRuns
					if fail != "" {
						ev["err"] = []string{"matrix:" + fail}
					}
				} else {
					ev["msg"] = err.Error()
				}
				emit(ev)
				if err == nil {
					providers = append(providers, p)
				} else {
					providers = append(providers, nil)
				}
			}
			if o.Op != "build" {
				q := queryVector(c)
				q["ev"], q["after"] = "q", o.Op
				if o.Op == "modulesagain" {
					q["after"] = "modules"
				}
				emit(q)
				for pi, p := range providers {
					if p == nil {
						continue
					}
					res, groups, _ := matrix(p)
					emit(M{"ev": "probe", "p": pi + 1, "resolvable": res, "groups": groups, "mruns": matrixRuns})
				}
			}
		}()
	}
}

func registryMain(args []string) {
	godi.VerifHook = seqHook
	sc := bufio.NewScanner(os.Stdin)
	sc.Buffer(make([]byte, 1<<20), 1<<26)
	run := 0
	for sc.Scan() {
		run++
		var s RScenario
		raw := append([]byte(nil), sc.Bytes()...)
		if err := json.Unmarshal(raw, &s); err != nil {
			fmt.Fprintln(os.Stderr, "bad scenario:", err)
			flushOut()
			os.Exit(4)
		}
		registryScenario(&s, raw, run)
		flushOut()
	}
}

var _ = reflect.TypeOf

func init() { modes["registry"] = registryMain }
