package main

import (
	"bufio"
	"encoding/json"
	"errors"
	"flag"
	"fmt"
	"os"
	"reflect"
	"sort"
	"time"

	"github.com/junioryono/godi/v4/verifx"
)

// node identities: distinct (type,key,group) triples; several share a type so
// that NodeKey equality on key and group is exercised.
type gT0 struct{}
type gT1 struct{}
type gT2 struct{}
type gT3 struct{}

var graphNodes = map[string]verifx.NodeKey{
	"n0": {Type: reflect.TypeOf(gT0{})},
	"n1": {Type: reflect.TypeOf(gT0{}), Key: "k"},
	"n2": {Type: reflect.TypeOf(gT1{}), Group: "g"},
	"n3": {Type: reflect.TypeOf(gT1{})},
	"n4": {Type: reflect.TypeOf(gT2{}), Key: 7},
	"n5": {Type: reflect.TypeOf(gT2{})},
	"n6": {Type: reflect.TypeOf(gT0{}), Group: "g"},
	"n7": {Type: reflect.TypeOf(gT3{}), Key: "k"},
}
var graphNames = map[verifx.NodeKey]string{}
var graphOrder []string

func init() {
	for n, k := range graphNodes {
		graphNames[k] = n
		graphOrder = append(graphOrder, n)
	}
	sort.Strings(graphOrder)
}

type gProv struct {
	key  verifx.NodeKey
	deps []*verifx.Dependency
}

func (p *gProv) GetType() reflect.Type                 { return p.key.Type }
func (p *gProv) GetKey() any                           { return p.key.Key }
func (p *gProv) GetGroup() string                      { return p.key.Group }
func (p *gProv) GetDependencies() []*verifx.Dependency { return p.deps }

func mkProv(n string, ds []string) *gProv {
	p := &gProv{key: graphNodes[n]}
	for i, d := range ds {
		k := graphNodes[d]
		p.deps = append(p.deps, &verifx.Dependency{Type: k.Type, Key: k.Key, Group: k.Group, Index: i})
	}
	return p
}

func gname(k verifx.NodeKey) string {
	if n, ok := graphNames[k]; ok {
		return n
	}
	return "?"
}

func gnames(ks []verifx.NodeKey) []string {
	r := make([]string, 0, len(ks))
	for _, k := range ks {
		r = append(r, gname(k))
	}
	return r
}

func nodeNames(ns []*verifx.Node) []string {
	r := make([]string, 0, len(ns))
	for _, n := range ns {
		if n == nil {
			r = append(r, "?")
		} else {
			r = append(r, gname(n.Key))
		}
	}
	return r
}

type gOp struct {
	Ev string   `json:"ev"`
	N  string   `json:"n"`
	Ds []string `json:"ds"`
}

// graphObs issues every query of the component.  Degree-based queries come
// first so that a mutation that forgot to refresh degrees is not repaired by
// DetectCycles (which recomputes them) before it is observed.
func graphObs(g *verifx.DependencyGraph, universe []string) M {
	o := M{"ev": "obs"}
	o["size"] = g.Size()
	has := []string{}
	deps, dependents, trans, depths := M{}, M{}, M{}, M{}
	o["roots"] = nodeNames(g.GetRoots())
	o["leaves"] = nodeNames(g.GetLeaves())
	for _, n := range universe {
		k := graphNodes[n]
		if g.HasNode(k.Type, k.Key, k.Group) {
			has = append(has, n)
		}
		deps[n] = gnames(g.GetDependencies(k.Type, k.Key, k.Group))
		dependents[n] = gnames(g.GetDependents(k.Type, k.Key, k.Group))
	}
	sorted, err := g.TopologicalSort()
	o["topoerr"] = err != nil
	o["topo"] = nodeNames(sorted)
	for _, n := range universe {
		k := graphNodes[n]
		trans[n] = gnames(g.GetTransitiveDependencies(k.Type, k.Key, k.Group))
	}
	acyc := g.IsAcyclic()
	o["acyclic"] = acyc
	if acyc {
		g.CalculateDepths()
	}
	for _, n := range universe {
		k := graphNodes[n]
		d := -9
		if acyc {
			if nd := g.GetNode(k.Type, k.Key, k.Group); nd != nil {
				d = nd.Depth
			}
		}
		depths[n] = d
	}
	o["has"], o["deps"], o["dependents"], o["trans"], o["depths"] = has, deps, dependents, trans, depths
	return o
}

func graphStep(g *verifx.DependencyGraph, op gOp) (ev M) {
	ev = M{"ev": op.Ev}
	defer func() {
		if r := recover(); r != nil {
			ev = M{"ev": "panic", "op": op.Ev, "msg": fmt.Sprint(r)}
		}
	}()
	ds := op.Ds
	if ds == nil {
		ds = []string{}
	}
	switch op.Ev {
	case "add":
		err := g.AddProvider(mkProv(op.N, ds))
		ev["n"], ev["ds"] = op.N, ds
		ev["res"] = "ok"
		if err != nil {
			ev["res"] = "cycle"
			var ce *verifx.CircularDependencyError
			if !errors.As(err, &ce) {
				ev["res"] = "othererr"
			}
		}
	case "addd":
		err := g.AddProviderDeferred(mkProv(op.N, ds))
		ev["n"], ev["ds"] = op.N, ds
		if err != nil {
			ev = M{"ev": "panic", "op": op.Ev, "msg": err.Error()}
		}
	case "detect":
		err := g.DetectCycles()
		ev["res"], ev["path"], ev["node"] = "ok", []string{}, "-"
		if err != nil {
			var ce *verifx.CircularDependencyError
			if errors.As(err, &ce) {
				ev["res"], ev["path"], ev["node"] = "cycle", gnames(ce.Path), gname(ce.Node)
			} else {
				ev["res"] = "othererr"
			}
		}
	case "remove":
		k := graphNodes[op.N]
		g.RemoveProvider(k.Type, k.Key, k.Group)
		ev["n"] = op.N
	case "clear":
		g.Clear()
	}
	return ev
}

// graphMain: reads scenarios (one JSON array of ops per line) on stdin, writes
// the trace on stdout.  -obs all|last2 selects where full observations are taken.
func graphMain(args []string) {
	fs := flag.NewFlagSet("graph", flag.ExitOnError)
	obsMode := fs.String("obs", "last2", "all | last2")
	nn := fs.Int("nodes", 4, "size of the node universe")
	skip := fs.Int("skip", 0, "scenarios to skip (restart after a scenario that hung or crashed the process)")
	fs.Parse(args)
	universe := graphOrder[:*nn]
	sc := bufio.NewScanner(os.Stdin)
	sc.Buffer(make([]byte, 1<<20), 1<<26)
	run := 0
	for sc.Scan() {
		var ops []gOp
		if err := json.Unmarshal(sc.Bytes(), &ops); err != nil {
			fmt.Fprintln(os.Stderr, "bad scenario:", err)
			flushOut()
			os.Exit(4)
		}
		run++
		if run <= *skip {
			continue
		}
		emit(M{"ev": "reset", "run": run})
		flushOut()
		// a query or mutation that does not return (e.g. a depth computation on a graph wrongly taken for acyclic) is
		// reported and ends this process; the driver runs the remaining scenarios in a fresh one
		watchdog := time.AfterFunc(10*time.Second, func() {
			emit(M{"ev": "hang", "op": "graph"})
			flushOut()
			os.Exit(3)
		})
		g := verifx.NewDependencyGraph()
		pending := false
		for i, op := range ops {
			ev := graphStep(g, op)
			emit(ev)
			switch op.Ev {
			case "addd":
				pending = true
			case "remove":
				// removing an absent node is a no-op and does not complete a deferred add
			default:
				pending = false
			}
			if ev["ev"] == "panic" {
				break
			}
			if !pending && (*obsMode == "all" || i >= len(ops)-2) {
				func() {
					defer func() {
						if r := recover(); r != nil {
							emit(M{"ev": "panic", "op": "obs", "msg": fmt.Sprint(r)})
						}
					}()
					emit(graphObs(g, universe))
				}()
			}
		}
		if pending {
			// the scenario ends inside a deferred load (deferred adds, possibly followed by removals): complete it
			// and observe - a transition out of a pending state is judged by what the component answers afterwards,
			// along THIS path (the reference state alone does not say what the implementation has cached)
			func() {
				defer func() {
					if r := recover(); r != nil {
						emit(M{"ev": "panic", "op": "obs", "msg": fmt.Sprint(r)})
					}
				}()
				ev := graphStep(g, gOp{Ev: "detect"})
				emit(ev)
				if ev["ev"] != "panic" {
					emit(graphObs(g, universe))
				}
			}()
		}
		watchdog.Stop()
	}
}
