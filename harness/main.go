// Command verifharness drives the real godi code (built from /repo's working
// tree, -tags verif) through scenarios and records ndjson traces that the TLA+
// trace specifications validate.
package main

import (
	"bufio"
	"encoding/json"
	"fmt"
	"os"
)

var out *bufio.Writer

func emit(v any) {
	emitMu.Lock()
	defer emitMu.Unlock()
	b, err := json.Marshal(v)
	if err != nil {
		fmt.Fprintln(os.Stderr, "marshal:", err)
		os.Exit(2)
	}
	out.Write(b)
	out.WriteByte('\n')
}

type M = map[string]any

func main() {
	if len(os.Args) < 2 {
		fmt.Fprintln(os.Stderr, "usage: verifharness <mode> [args]")
		os.Exit(2)
	}
	out = bufio.NewWriterSize(os.Stdout, 1<<20)
	defer out.Flush()
	switch os.Args[1] {
	case "graph":
		graphMain(os.Args[2:])
	default:
		if f, ok := modes[os.Args[1]]; ok {
			f(os.Args[2:])
			return
		}
		fmt.Fprintln(os.Stderr, "unknown mode", os.Args[1])
		out.Flush()
		os.Exit(2)
	}
}

var modes = map[string]func([]string){}
