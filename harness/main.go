// Command verifharness drives the real godi code (built from /repo's working
// tree, -tags verif) through scenarios and records ndjson traces that the TLA+
// trace specifications validate.
package main

import (
	"bufio"
	"encoding/json"
	"fmt"
	"os"
)

var out *bufio.Writer

func emit(v any) {
	emitMu.Lock()
	defer emitMu.Unlock()
	b, err := json.Marshal(v)
	if err != nil {
		fmt.Fprintln(os.Stderr, "marshal:", err)
		os.Exit(4)
	}
	out.Write(b)
	out.WriteByte('\n')
}

func flushOut() {
	emitMu.Lock()
	out.Flush()
	emitMu.Unlock()
}

type M = map[string]any

func main() {
	if len(os.Args) < 2 {
		fmt.Fprintln(os.Stderr, "usage: verifharness <mode> [args]")
		os.Exit(4)
	}
	out = bufio.NewWriterSize(os.Stdout, 1<<20)
	defer flushOut()
	switch os.Args[1] {
	case "graph":
		graphMain(os.Args[2:])
	default:
		if f, ok := modes[os.Args[1]]; ok {
			f(os.Args[2:])
			return
		}
		fmt.Fprintln(os.Stderr, "unknown mode", os.Args[1])
		flushOut()
		os.Exit(4)
	}
}

var modes = map[string]func([]string){}
