package main

import (
	"os"
	"reflect"
	"runtime"
	"sync"
	"time"
	"unsafe"
	"weak"

	godi "github.com/junioryono/godi/v4"
)

// Liveness observations for C14: weak pointers to scope objects and instances, goroutine
// counts, context state.  Finalizers cannot be used on scopes (a scope and its context
// reference each other, and cycles through finalizable objects are never collected).

type liveTracker struct {
	mu     sync.Mutex
	scopes map[string]weak.Pointer[byte]
	insts  map[int]weak.Pointer[byte]
	parent map[string]string
	closed map[string]bool
}

var live = &liveTracker{}
var slowObs int

func (l *liveTracker) reset() {
	l.mu.Lock()
	defer l.mu.Unlock()
	l.scopes = map[string]weak.Pointer[byte]{}
	l.insts = map[int]weak.Pointer[byte]{}
	l.parent = map[string]string{}
	l.closed = map[string]bool{}
}

func weakOf(v any) (weak.Pointer[byte], bool) {
	rv := reflect.ValueOf(v)
	if rv.Kind() != reflect.Pointer || rv.IsNil() {
		return weak.Pointer[byte]{}, false
	}
	return weak.Make((*byte)(unsafe.Pointer(rv.Pointer()))), true
}

func (l *liveTracker) trackScope(name string, s godi.Scope, parent string) {
	l.mu.Lock()
	defer l.mu.Unlock()
	if w, ok := weakOf(s); ok {
		l.scopes[name] = w
	}
	l.parent[name] = parent
}

func (l *liveTracker) trackInst(id int, v any) {
	l.mu.Lock()
	defer l.mu.Unlock()
	if w, ok := weakOf(v); ok {
		l.insts[id] = w
	}
}

func (l *liveTracker) markClosed(name string) {
	l.mu.Lock()
	defer l.mu.Unlock()
	if name == "prov" {
		for n := range l.parent {
			l.closed[n] = true
		}
		return
	}
	l.closed[name] = true
	for changed := true; changed; {
		changed = false
		for n, p := range l.parent {
			if l.closed[p] && !l.closed[n] {
				l.closed[n] = true
				changed = true
			}
		}
	}
}

// doObs: context state of every known scope, then drop the harness' own references to closed
// scopes, collect garbage, and report what is still alive and how many goroutines remain.
func doObs(g0 int) {
	R.cur = &opCtx{op: "obs", scope: "-"}
	ctxerr := M{}
	names := []string{}
	R.mu.Lock()
	for n, s := range R.scopes {
		names = append(names, n)
		st := "live"
		if c := s.Context(); c != nil && c.Err() != nil {
			st = "canceled"
		}
		ctxerr[n] = st
	}
	// scope objects that were announced by a CreateScope (hook K_addChild / K_track) but never returned to the
	// caller: the creation was refused or abandoned, so their derived contexts must have been cancelled
	orphans := append([]string{}, R.orphans...)
	R.orphans = nil
	for s := range R.pendingNames {
		if _, named := R.names[s]; named {
			continue
		}
		st := "live"
		if c := s.Context(); c != nil && c.Err() != nil {
			st = "canceled"
		}
		orphans = append(orphans, st)
	}
	R.pendingNames = map[godi.Scope]string{}
	openNonRoot := 0
	for n, s := range R.scopes {
		if live.closed[n] {
			delete(R.names, s)
			delete(R.scopes, n)
			// a cancel function is a reference to its context, and a context derived from a scope's context
			// keeps that scope reachable: the harness lets go of those of closed scopes as well
			if c := R.cancels[n]; c != nil {
				c()
				delete(R.cancels, n)
			}
		} else if n != "root" {
			openNonRoot++
		}
	}
	if live.closed["root"] {
		R.provider = nil
		R.pendingNames = map[godi.Scope]string{}
		R.waiters = map[godi.Scope]chan struct{}{}
	}
	R.mu.Unlock()
	expected := g0 + openNonRoot
	// a healthy run reaches the expected count at once; the ceiling is only hit when goroutines really leak,
	// and is lowered after a few such observations so that a leaking build does not stall the whole run
	wait := 3 * time.Second
	if slowObs >= 3 {
		wait = 150 * time.Millisecond
	}
	deadline := time.Now().Add(wait)
	n := runtime.NumGoroutine()
	for n > expected && time.Now().Before(deadline) {
		runtime.Gosched()
		time.Sleep(200 * time.Microsecond)
		n = runtime.NumGoroutine()
	}
	if n > expected {
		slowObs++
	}
	for i := 0; i < 3; i++ {
		runtime.GC()
		runtime.Gosched()
	}
	aliveScopes := []string{}
	for name, w := range live.scopes {
		if w.Value() != nil {
			aliveScopes = append(aliveScopes, name)
		}
	}
	aliveInsts := []int{}
	for id, w := range live.insts {
		if w.Value() != nil {
			aliveInsts = append(aliveInsts, id)
		}
	}
	if n-g0 > 0 && os.Getenv("VERIF_DEBUG") != "" {
		buf := make([]byte, 1<<16)
		buf = buf[:runtime.Stack(buf, true)]
		os.Stderr.Write(buf)
	}
	emit(M{"ev": "obs", "goroutines": n - g0, "alive_scopes": aliveScopes, "alive_insts": aliveInsts, "ctx": ctxerr, "known": names, "orphans": orphans})
	R.cur = nil
}
