package main

import (
	"errors"
	"fmt"
	"reflect"
	"runtime"
	"strings"
	"sync"
	"sync/atomic"
	"time"

	godi "github.com/junioryono/godi/v4"
)

// re-entrancy battery: user code (constructors, Close methods) that calls back into the container.  Every call of
// the battery runs under a watchdog: a call that does not return is reported as an error ("did not return"), which
// the specification's table (AbuseTable) does not allow.  What the container has to guarantee here follows from the
// listed properties: Close is idempotent and never hangs (C12, C13), a scope has one instance per scoped service also
// when it is requested from inside a constructor (C02), instances are closed exactly once (C10), a closing scope
// refuses further use (C13).

type reA struct {
	sc     godi.Scope
	closes int64
	inner  *reB
	mode   string
}
type reB struct{ closes int64 }
type reSing struct {
	p      godi.Provider
	closes int64
}

var reMode atomic.Value // what the next constructed reA does in its Close / constructor
var reLastA atomic.Pointer[reA]
var reInnerErr atomic.Value

func (b *reB) Close() error { atomic.AddInt64(&b.closes, 1); return nil }

func (a *reA) Close() error {
	atomic.AddInt64(&a.closes, 1)
	switch a.mode {
	case "close-own-scope":
		return a.sc.Close() // a unit of work that ends its scope when it is disposed
	case "close-from-awaited-goroutine":
		done := make(chan struct{})
		go func() { defer close(done); a.sc.Close() }()
		<-done
	case "resolve-while-closing":
		_, err := a.sc.Get(typeOfReB)
		if err == nil {
			reInnerErr.Store("resolved from a closing scope")
		} else if !errors.Is(err, godi.ErrScopeDisposed) {
			reInnerErr.Store("unexpected error: " + err.Error())
		} else {
			reInnerErr.Store("")
		}
	case "create-while-closing":
		child, err := a.sc.CreateScope(nil)
		if err == nil {
			child.Close()
			reInnerErr.Store("scope created on a closing scope")
		} else if !errors.Is(err, godi.ErrScopeDisposed) {
			reInnerErr.Store("unexpected error: " + err.Error())
		} else {
			reInnerErr.Store("")
		}
	}
	return nil
}

func (s *reSing) Close() error {
	atomic.AddInt64(&s.closes, 1)
	return s.p.Close() // a singleton that shuts the provider down when it is disposed
}

func newReB() *reB { return &reB{} }

func newReA(sc godi.Scope) (*reA, error) {
	mode, _ := reMode.Load().(string)
	a := &reA{sc: sc, mode: mode}
	switch mode {
	case "resolve-in-ctor":
		v, err := sc.Get(typeOfReB) // service-locator style: a scoped dependency fetched from the injected scope
		if err != nil {
			return nil, err
		}
		a.inner = v.(*reB)
	case "child-scope-in-ctor":
		child, err := sc.CreateScope(nil)
		if err != nil {
			return nil, err
		}
		v, err := child.Get(typeOfReB)
		if err != nil {
			return nil, err
		}
		a.inner = v.(*reB)
		if err := child.Close(); err != nil {
			return nil, err
		}
	}
	reLastA.Store(a)
	return a, nil
}

func newReSing(p godi.Provider) *reSing { return &reSing{p: p} }

func typeOf[T any]() reflect.Type { return reflect.TypeOf((*T)(nil)).Elem() }

var typeOfReA = typeOf[*reA]()
var typeOfReB = typeOf[*reB]()

// watchdog runs f; a call that does not come back within the limit is reported instead of awaited
func watchdog(what string, f func() error) error {
	done := make(chan error, 1)
	go func() {
		defer func() {
			if r := recover(); r != nil {
				done <- fmt.Errorf("panic: %v", r)
			}
		}()
		done <- f()
	}()
	select {
	case err := <-done:
		return err
	case <-time.After(8 * time.Second):
		return fmt.Errorf("%s did not return", what)
	}
}

func reentrantBattery() {
	build := func() (godi.Provider, error) {
		c := godi.NewCollection()
		if err := c.AddScoped(newReA); err != nil {
			return nil, err
		}
		if err := c.AddScoped(newReB); err != nil {
			return nil, err
		}
		return c.Build()
	}
	// Close of a scope whose instance closes that very scope (directly / from a goroutine it waits for); the same
	// one level up: the scope is closed by its parent, by the provider
	for _, mode := range []string{"close-own-scope", "close-from-awaited-goroutine"} {
		for _, via := range []string{"scope", "parent", "provider"} {
			mode, via := mode, via
			abuseCall("reentrant_"+map[string]string{"close-own-scope": "close", "close-from-awaited-goroutine": "goclose"}[mode]+"_via_"+via, func() error {
				p, err := build()
				if err != nil {
					return err
				}
				defer watchdog("provider.Close", p.Close)
				reMode.Store(mode)
				parent, err := p.CreateScope(nil)
				if err != nil {
					return err
				}
				s, err := parent.CreateScope(nil)
				if err != nil {
					return err
				}
				v, err := s.Get(typeOfReA)
				if err != nil {
					return err
				}
				a := v.(*reA)
				reMode.Store("")
				var closer func() error
				switch via {
				case "scope":
					closer = s.Close
				case "parent":
					closer = parent.Close
				default:
					closer = p.Close
				}
				if err := watchdog("Close", closer); err != nil {
					return err
				}
				if n := atomic.LoadInt64(&a.closes); n != 1 {
					return fmt.Errorf("instance closed %d times", n)
				}
				if _, err := s.Get(typeOfReB); !errors.Is(err, godi.ErrScopeDisposed) {
					return fmt.Errorf("closed scope still answers: %v", err)
				}
				if err := watchdog("second Close", s.Close); err != nil {
					return fmt.Errorf("second Close: %w", err)
				}
				return nil
			})
		}
	}
	// an instance that uses its scope while the scope is being closed is refused, not blocked
	for _, mode := range []string{"resolve-while-closing", "create-while-closing"} {
		mode := mode
		abuseCall("reentrant_"+map[string]string{"resolve-while-closing": "resolve", "create-while-closing": "create"}[mode]+"_while_closing", func() error {
			p, err := build()
			if err != nil {
				return err
			}
			defer watchdog("provider.Close", p.Close)
			reMode.Store(mode)
			reInnerErr.Store("instance was not closed")
			s, err := p.CreateScope(nil)
			if err != nil {
				return err
			}
			if _, err := s.Get(typeOfReA); err != nil {
				return err
			}
			reMode.Store("")
			if err := watchdog("Close", s.Close); err != nil {
				return err
			}
			if msg, _ := reInnerErr.Load().(string); msg != "" {
				return errors.New(msg)
			}
			return nil
		})
	}
	// a scoped constructor that fetches a scoped dependency from the injected scope: the scope still has one instance
	// of each, and nothing blocks; a constructor that opens (and closes) a child scope gets the CHILD's instance
	abuseCall("reentrant_resolve_in_ctor", func() error {
		p, err := build()
		if err != nil {
			return err
		}
		defer watchdog("provider.Close", p.Close)
		reMode.Store("resolve-in-ctor")
		defer reMode.Store("")
		s, err := p.CreateScope(nil)
		if err != nil {
			return err
		}
		var a *reA
		if err := watchdog("Get", func() error {
			v, err := s.Get(typeOfReA)
			if err == nil {
				a = v.(*reA)
			}
			return err
		}); err != nil {
			return err
		}
		b, err := s.Get(typeOfReB)
		if err != nil {
			return err
		}
		if a.inner != b.(*reB) {
			return fmt.Errorf("the scope has two instances of the scoped dependency")
		}
		if err := watchdog("Close", s.Close); err != nil {
			return err
		}
		if n, m := atomic.LoadInt64(&a.closes), atomic.LoadInt64(&a.inner.closes); n != 1 || m != 1 {
			return fmt.Errorf("closed %d / %d times", n, m)
		}
		return nil
	})
	abuseCall("reentrant_child_scope_in_ctor", func() error {
		p, err := build()
		if err != nil {
			return err
		}
		defer watchdog("provider.Close", p.Close)
		reMode.Store("child-scope-in-ctor")
		defer reMode.Store("")
		s, err := p.CreateScope(nil)
		if err != nil {
			return err
		}
		var a *reA
		if err := watchdog("Get", func() error {
			v, err := s.Get(typeOfReA)
			if err == nil {
				a = v.(*reA)
			}
			return err
		}); err != nil {
			return err
		}
		b, err := s.Get(typeOfReB)
		if err != nil {
			return err
		}
		if a.inner == b.(*reB) {
			return fmt.Errorf("parent and child scope share a scoped instance")
		}
		if n := atomic.LoadInt64(&a.inner.closes); n != 1 {
			return fmt.Errorf("the child scope's instance was closed %d times when the child was closed", n)
		}
		return watchdog("Close", s.Close)
	})
	// a singleton whose Close shuts the provider down: provider.Close returns, the singleton is closed once
	abuseCall("reentrant_provider_close_from_singleton", func() error {
		c := godi.NewCollection()
		if err := c.AddSingleton(newReSing); err != nil {
			return err
		}
		p, err := c.Build()
		if err != nil {
			return err
		}
		v, err := p.Get(typeOf[*reSing]())
		if err != nil {
			return err
		}
		if err := watchdog("provider.Close", p.Close); err != nil {
			return err
		}
		if n := atomic.LoadInt64(&v.(*reSing).closes); n != 1 {
			return fmt.Errorf("singleton closed %d times", n)
		}
		return nil
	})
}

// ---- result objects with a nil field ---------------------------------------------------------------------------
// A result object whose constructor leaves a (non-last) field nil: whatever the container makes of the nil field
// itself, every OTHER field is resolvable under exactly its own identity - a resolution that succeeds returns the value
// the constructor put into THAT field.

type outDB struct {
	tag    string
	closes int64
}
type outCache struct {
	tag    string
	closes int64
}

var outMade sync.Map // every *outDB / *outCache the constructors of this battery made

func (d *outDB) Close() error    { atomic.AddInt64(&d.closes, 1); return nil }
func (d *outCache) Close() error { atomic.AddInt64(&d.closes, 1); return nil }
func mkOutDB(tag string) *outDB {
	d := &outDB{tag: tag}
	outMade.Store(d, true)
	return d
}
func mkOutCache(tag string) *outCache {
	d := &outCache{tag: tag}
	outMade.Store(d, true)
	return d
}

type outNilNamed struct {
	godi.Out
	Primary   *outDB `name:"primary"`
	Replica   *outDB `name:"replica"`
	Analytics *outDB `name:"analytics"`
}
type outNilTyped struct {
	godi.Out
	DB    *outDB
	Cache *outCache
	Extra *outDB `group:"extra"`
}

func newOutNilNamed() outNilNamed {
	return outNilNamed{Primary: nil, Replica: mkOutDB("replica"), Analytics: mkOutDB("analytics")}
}
func newOutNilTyped() outNilTyped {
	return outNilTyped{DB: nil, Cache: mkOutCache("cache"), Extra: mkOutDB("extra")}
}

func outNilFieldBattery() {
	for _, life := range []string{"scoped", "transient", "singleton"} {
		life := life
		abuseCall("out_nil_field_"+life, func() error {
			c := godi.NewCollection()
			var err error
			switch life {
			case "scoped":
				err = c.AddScoped(newOutNilNamed)
				if err == nil {
					err = c.AddScoped(newOutNilTyped)
				}
			case "transient":
				err = c.AddTransient(newOutNilNamed)
				if err == nil {
					err = c.AddTransient(newOutNilTyped)
				}
			default:
				err = c.AddSingleton(newOutNilNamed)
				if err == nil {
					err = c.AddSingleton(newOutNilTyped)
				}
			}
			if err != nil {
				return nil // the registration itself may be refused
			}
			outMade = sync.Map{}
			p, err := c.Build()
			if err != nil {
				return nil // a nil singleton output may make Build fail: no claim
			}
			s, err := p.CreateScope(nil)
			if err != nil {
				p.Close()
				return err
			}
			perr := outNilProbe(s)
			// however often the constructors had to run: everything they made is closed exactly once when the scope and
			// the provider have been closed
			s.Close()
			p.Close()
			if perr != nil {
				return perr
			}
			var bad error
			outMade.Range(func(k, _ any) bool {
				var n int64
				switch x := k.(type) {
				case *outDB:
					n = atomic.LoadInt64(&x.closes)
				case *outCache:
					n = atomic.LoadInt64(&x.closes)
				}
				if n != 1 {
					bad = fmt.Errorf("an instance made by the result-object constructor was closed %d times", n)
				}
				return true
			})
			return bad
		})
	}
}

func outNilProbe(s godi.Scope) error {
	for _, order := range [][]string{{"replica", "analytics", "primary"}, {"analytics", "replica"}} {
		for _, k := range order {
			v, err := godi.ResolveKeyed[*outDB](s, k)
			if err == nil && v != nil && v.tag != k {
				return fmt.Errorf("field %q resolved to the value of field %q", k, v.tag)
			}
			if err == nil && v == nil && k != "primary" {
				return fmt.Errorf("field %q resolved to nil without an error", k)
			}
		}
	}
	if v, err := godi.Resolve[*outCache](s); err == nil && (v == nil || v.tag != "cache") {
		return fmt.Errorf("the cache field resolved to something else")
	}
	if v, err := godi.Resolve[*outDB](s); err == nil && v != nil {
		return fmt.Errorf("the nil field resolved to the value of field %q", v.tag)
	}
	if vs, err := godi.ResolveGroup[*outDB](s, "extra"); err == nil {
		for _, v := range vs {
			if v != nil && v.tag != "extra" {
				return fmt.Errorf("group extra holds the value of field %q", v.tag)
			}
		}
	}
	return nil
}

// ---- abnormal exits of user code -------------------------------------------------------------------------------

type abortSvc struct{ n int }

var abortCalls int64

// a scoped constructor whose goroutine ends inside it at the first invocation (runtime.Goexit, as t.FailNow or a
// request-abort helper does)
func newAbortSvc() *abortSvc {
	if atomic.AddInt64(&abortCalls, 1) == 1 {
		runtime.Goexit()
	}
	return &abortSvc{n: int(atomic.LoadInt64(&abortCalls))}
}

type flushSvc struct{ wrap error }

// an instance whose Close fails with an error that WRAPS one of the container's own sentinels (a flusher that used its
// already-disposed scope and reports why it could not flush)
func (f *flushSvc) Close() error { return fmt.Errorf("flush failed: %w", f.wrap) }

var flushWrap atomic.Value

func newFlushSvc() *flushSvc {
	w, _ := flushWrap.Load().(error)
	return &flushSvc{wrap: w}
}

func abnormalBattery() {
	// the goroutine that claimed a scoped construction ends inside the constructor: later resolutions of that service
	// in that scope return (a construction of their own, or an error) - nobody waits for ever
	abuseCall("ctor_goexit_releases_waiters", func() error {
		atomic.StoreInt64(&abortCalls, 0)
		c := godi.NewCollection()
		if err := c.AddScoped(newAbortSvc); err != nil {
			return err
		}
		p, err := c.Build()
		if err != nil {
			return err
		}
		defer watchdog("provider.Close", p.Close)
		s, err := p.CreateScope(nil)
		if err != nil {
			return err
		}
		gone := make(chan struct{})
		go func() {
			defer close(gone)
			s.Get(typeOf[*abortSvc]())
		}()
		select {
		case <-gone:
		case <-time.After(5 * time.Second):
			return fmt.Errorf("the aborted goroutine did not end")
		}
		var got any
		if err := watchdog("Get after an aborted construction", func() error {
			v, err := s.Get(typeOf[*abortSvc]())
			got = v
			return err
		}); err != nil {
			if got == nil && !strings.Contains(err.Error(), "did not return") {
				return nil // reporting the aborted construction as a failure is acceptable; blocking is not
			}
			return err
		}
		v2, err := s.Get(typeOf[*abortSvc]())
		if err != nil || v2 != got {
			return fmt.Errorf("the scope has two instances after the retry (%v)", err)
		}
		return watchdog("Close", s.Close)
	})
	// a failing instance Close whose error wraps ErrScopeDisposed / ErrProviderDisposed is a failure like any other: the
	// Close of the parent scope / of the provider reports it
	for _, via := range []string{"own", "parent", "provider"} {
		for wi, w := range []error{godi.ErrScopeDisposed, godi.ErrProviderDisposed} {
			via, w := via, w
			abuseCall(fmt.Sprintf("close_error_wrapping_sentinel_%s_%d", via, wi), func() error {
				flushWrap.Store(w)
				c := godi.NewCollection()
				if err := c.AddScoped(newFlushSvc); err != nil {
					return err
				}
				p, err := c.Build()
				if err != nil {
					return err
				}
				parent, err := p.CreateScope(nil)
				if err != nil {
					return err
				}
				child, err := parent.CreateScope(nil)
				if err != nil {
					return err
				}
				if _, err := child.Get(typeOf[*flushSvc]()); err != nil {
					return err
				}
				var cerr error
				switch via {
				case "own":
					cerr = child.Close()
				case "parent":
					cerr = parent.Close()
				default:
					cerr = p.Close()
				}
				p.Close()
				if cerr == nil {
					return fmt.Errorf("the failing Close of an instance in the subtree was not reported")
				}
				var de *godi.DisposalError
				if !errors.As(cerr, &de) {
					return fmt.Errorf("not a disposal error: %v", cerr)
				}
				return nil
			})
		}
	}
}

// ---- a factory-style constructor that resolves a collaborator itself and wraps its failure ------------------------

type lazyOuter struct{}
type lazyInner struct{}

var errLazyOuter = errors.New("verif: outer constructor gives up")
var errLazyInner = errors.New("verif: inner constructor failed")
var lazyInnerPanics atomic.Bool

func newLazyInner() (*lazyInner, error) {
	if lazyInnerPanics.Load() {
		panic("verif: inner constructor panicked")
	}
	return nil, errLazyInner
}

// the outer constructor resolves its collaborator through the injected scope and reports ITS OWN error, wrapping what it got
func newLazyOuter(s godi.Scope) (*lazyOuter, error) {
	if _, err := s.Get(typeOf[*lazyInner]()); err != nil {
		return nil, fmt.Errorf("%w: %w", errLazyOuter, err)
	}
	return &lazyOuter{}, nil
}

func lazyBattery() {
	for _, life := range []string{"scoped", "transient", "singleton"} {
		for _, inner := range []string{"err", "panic"} {
			life, inner := life, inner
			abuseCall("lazy_ctor_own_error_"+life+"_"+inner, func() error {
				lazyInnerPanics.Store(inner == "panic")
				c := godi.NewCollection()
				if err := c.AddTransient(newLazyInner); err != nil {
					return err
				}
				var err error
				switch life {
				case "scoped":
					err = c.AddScoped(newLazyOuter)
				case "transient":
					err = c.AddTransient(newLazyOuter)
				default:
					err = c.AddSingleton(newLazyOuter)
				}
				if err != nil {
					return err
				}
				p, err := c.Build()
				if life == "singleton" {
					if err == nil {
						p.Close()
						return fmt.Errorf("Build accepted a failing singleton")
					}
				} else {
					if err != nil {
						return err
					}
					defer p.Close()
					s, cerr := p.CreateScope(nil)
					if cerr != nil {
						return cerr
					}
					defer s.Close()
					_, err = s.Get(typeOf[*lazyOuter]())
					if err == nil {
						return fmt.Errorf("the failing constructor was not reported")
					}
				}
				// the constructor's OWN error is what is wrapped (and, through it, the collaborator's failure)
				if !errors.Is(err, errLazyOuter) {
					return fmt.Errorf("the outer constructor's own error is not reachable: %v", err)
				}
				if inner == "err" && !errors.Is(err, errLazyInner) {
					return fmt.Errorf("the collaborator's error is not reachable: %v", err)
				}
				var cie *godi.ConstructorInvocationError
				if !errors.As(err, &cie) {
					return fmt.Errorf("not classifiable as a constructor failure: %v", err)
				}
				return nil
			})
		}
	}
}
