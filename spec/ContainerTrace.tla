---------------------------- MODULE ContainerTrace ----------------------------
(* Trace specification for Container: applies every recorded event of the    *)
(* real container to the specification state and evaluates every             *)
(* property-tagged guard.  A "reset" event starts a new scenario and carries *)
(* its configuration.  seen / seenw persist across resets: Build verdict and *)
(* wiring signature per configuration id (C06: rebuilding or permuting the   *)
(* registrations gives the same verdict and the same wiring).                *)
EXTENDS Container, Json, IOUtils

CONSTANT Check

Trace == ndJsonDeserialize(IOEnv.VERIF_TRACE)

VARIABLES l, st, viol, nev, seen, seenw
tvars == <<l, st, viol, nev, seen, seenw>>

EmptyCfg == [cid |-> NONE, regs |-> <<>>, faults |-> <<>>, closeerr |-> <<>>]

TInit == /\ l = 1 /\ st = InitState(EmptyCfg) /\ viol = {} /\ nev = 0
         /\ seen = <<>> /\ seenw = <<>>

IsBuildRet(e) == e.ev = "ret" /\ ~st.skip /\ st.cur.op = "build"

CrossRunGuards(e) ==
    IF IsBuildRet(e) /\ ~st.taint /\ st.cfg.cid # NONE THEN
        LET okv == e.err = <<>> IN
        {G("same_verdict_on_rebuild", {"C06"}, st.cfg.cid \in DOMAIN seen => seen[st.cfg.cid] = okv, NONE),
         G("same_wiring_on_rebuild", {"C06"}, (okv /\ st.cfg.cid \in DOMAIN seenw) => seenw[st.cfg.cid] = st.wsig, NONE)}
    ELSE {}

Step ==
    /\ l <= Len(Trace)
    /\ LET e  == Trace[l]
           gs == IF e.ev = "reset" THEN {} ELSE Guards(st, e) \cup CrossRunGuards(e)
       IN  /\ st' = IF e.ev = "reset" THEN InitState(e.cfg) ELSE Apply(st, e)
           /\ viol' = viol \cup UNION {{<<t, gd.name, l, gd.kf>> : t \in gd.tags \cap Check} : gd \in {x \in gs : ~x.ok}}
           /\ nev' = nev + Cardinality(gs)
           /\ IF e.ev # "reset" /\ IsBuildRet(e) /\ st.cfg.cid # NONE
              THEN /\ seen' = IF st.cfg.cid \in DOMAIN seen THEN seen ELSE (st.cfg.cid :> (e.err = <<>>)) @@ seen
                   /\ seenw' = IF e.err # <<>> \/ st.cfg.cid \in DOMAIN seenw THEN seenw ELSE (st.cfg.cid :> st.wsig) @@ seenw
              ELSE UNCHANGED <<seen, seenw>>
    /\ l' = l + 1

Finish ==
    /\ l = Len(Trace) + 1
    /\ PrintT(<<"RESULT", ToJson([lines |-> Len(Trace), evals |-> nev, viol |-> viol])>>)
    /\ l' = l + 1
    /\ UNCHANGED <<st, viol, nev, seen, seenw>>

TNext == Step \/ Finish
TraceSpec == TInit /\ [][TNext]_tvars
=============================================================================
