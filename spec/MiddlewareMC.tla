---------------------------- MODULE MiddlewareMC ----------------------------
(* Design model: for every configuration of the configuration space and a    *)
(* batch of concurrent requests, a reference implementation of the request   *)
(* life cycle is explored step by step under all interleavings; TLC checks   *)
(* that it satisfies every guard (bad = {}) and the end-state invariants,    *)
(* and emits every configuration as a scenario for the five real             *)
(* integrations.                                                             *)
EXTENDS Middleware, Json

CONSTANTS Frameworks, MaxMw, Batches, EmitOn

VARIABLES ms, pc, bad, nextScope, emitted
vars == <<ms, pc, bad, nextScope, emitted>>

\* the special situations are mutually exclusive (each is only relevant on top of an otherwise plain configuration):
\* enumerating them as one dimension keeps the configuration set small
\* reqcancel: the request's context is cancelled while the handler runs and the handler stays until the scope was closed by
\* its context watcher - the life cycle is the plain one (the close at the end of the request is the second, a no-op)
Extras == {"none", "outer", "closefail", "defeh", "replacectx", "noabort", "mwcanceled", "reqcancel", "mwpanic"}
Cfgs == {[fw |-> f, nmw |-> n, mwfail |-> mf, handler |-> h, registered |-> rg, method |-> m, recovery |-> rc,
          scopemw |-> sm, provclosed |-> pcl, batch |-> b, outer |-> x = "outer", closefail |-> x = "closefail",
          defeh |-> x = "defeh", replacectx |-> x = "replacectx", noabort |-> x = "noabort", mwcanceled |-> x = "mwcanceled",
          reqcancel |-> x = "reqcancel", mwpanic |-> x = "mwpanic"] :
            f \in Frameworks, n \in 0..MaxMw, mf \in 0..MaxMw, h \in {"ok", "err", "panic", "handle"}, rg \in BOOLEAN,
            m \in {"ok", "panic"}, rc \in BOOLEAN, sm \in BOOLEAN, pcl \in BOOLEAN, b \in Batches, x \in Extras}
\* drop combinations that only repeat others
Relevant(c) == /\ c.mwfail <= c.nmw
               /\ (c.handler # "handle" => (c.registered /\ c.method = "ok" /\ ~c.recovery))
               /\ (~c.scopemw => (c.nmw = 0 /\ ~c.provclosed))
               /\ (c.provclosed => (c.nmw = 0 /\ c.handler \in {"ok", "handle"}))
               /\ (c.batch > 1 => (c.handler \in {"ok", "handle"} /\ c.mwfail = 0 /\ ~c.provclosed))
               /\ (c.outer => (c.scopemw /\ ~c.provclosed /\ c.mwfail = 0 /\ c.handler \in {"ok", "handle"}))
               /\ (c.closefail => (c.scopemw /\ ~c.provclosed /\ ~c.outer /\ c.nmw <= 1))
               /\ (c.replacectx => (c.fw = "fiber" /\ c.handler = "handle" /\ c.scopemw /\ ~c.provclosed /\ c.mwfail = 0
                                    /\ ~c.outer /\ ~c.closefail /\ ~c.defeh))
               /\ (c.mwcanceled => (c.mwfail > 0 /\ c.scopemw /\ ~c.provclosed /\ ~c.outer /\ ~c.closefail /\ ~c.defeh /\ ~c.noabort
                                    /\ c.batch = 1))
               /\ (c.noabort => (c.fw = "gin" /\ c.handler = "handle" /\ c.registered /\ c.scopemw /\ ~c.provclosed /\ c.mwfail > 0
                                 /\ ~c.outer /\ ~c.closefail /\ ~c.defeh /\ ~c.replacectx /\ c.batch = 1))
               /\ (c.defeh => (c.scopemw /\ (c.provclosed \/ c.mwfail > 0) /\ ~c.outer /\ ~c.closefail))
               /\ (c.mwpanic => (c.mwfail > 0 /\ c.scopemw /\ ~c.provclosed /\ c.batch = 1))
               /\ (c.reqcancel => (c.scopemw /\ ~c.provclosed /\ c.mwfail = 0 /\ c.handler \in {"ok", "handle"} /\ c.registered
                                   /\ c.method = "ok" /\ c.batch = 1))

Reqs(c) == 1..c.batch

Init == /\ \E c \in {x \in Cfgs : Relevant(x)} : ms = MInit(c)
        /\ pc = [r \in 1..3 |-> "new"]
        /\ bad = {} /\ nextScope = 1 /\ emitted = FALSE

Feed(e) == /\ ms' = MApply(ms, e)
           /\ bad' = bad \cup {g.name : g \in {x \in MGuards(ms, e) : ~x.ok}}
ScopeName(n) == "q" \o ToString(n)

\* reference life cycle of request r, one observable event per step
Arrive(r) == pc[r] = "new" /\ r \in Reqs(ms.cfg) /\ Feed([ev |-> "req", rq |-> r])
             /\ pc' = [pc EXCEPT ![r] = IF ~ms.cfg.scopemw THEN "handler"
                                        ELSE IF ms.cfg.provclosed THEN "errscope" ELSE "mw"]
             /\ UNCHANGED <<nextScope, emitted>>
ErrScope(r) == pc[r] = "errscope"
               /\ (IF DefaultEH(ms.cfg) THEN UNCHANGED <<ms, bad>> ELSE Feed([ev |-> "errh", rq |-> r, kind |-> "scope"]))
               /\ pc' = [pc EXCEPT ![r] = "finish"] /\ UNCHANGED <<nextScope, emitted>>
MyScope(r) == IF ms.reqs[r].scope = NONE THEN ScopeName(nextScope) ELSE ms.reqs[r].scope
MyProbe(r) == IF ms.reqs[r].probe = 0 THEN nextScope ELSE ms.reqs[r].probe
Claim(r) == nextScope' = IF ms.reqs[r].scope = NONE THEN nextScope + 1 ELSE nextScope
Mw(r) == /\ pc[r] = "mw"
         /\ IF ms.reqs[r].mws < ms.cfg.nmw
            THEN /\ Feed([ev |-> "mw", rq |-> r, i |-> ms.reqs[r].mws + 1, scope |-> MyScope(r), probe |-> MyProbe(r)])
                 /\ Claim(r)
                 /\ pc' = [pc EXCEPT ![r] = IF ms.cfg.mwfail = ms.reqs[r].mws + 1 THEN "errmw" ELSE "mw"]
            ELSE /\ pc' = [pc EXCEPT ![r] = "handler"] /\ UNCHANGED <<ms, bad, nextScope>>
         /\ UNCHANGED emitted
ErrMw(r) == pc[r] = "errmw"
            /\ (IF DefaultEH(ms.cfg) \/ MwPanic(ms.cfg) THEN UNCHANGED <<ms, bad>> ELSE Feed([ev |-> "errh", rq |-> r, kind |-> "mw"]))
            /\ pc' = [pc EXCEPT ![r] = "close"] /\ UNCHANGED <<nextScope, emitted>>
Handler(r) ==
    /\ pc[r] = "handler"
    /\ LET c == ms.cfg IN
       IF ~IsHandle(c) THEN
            /\ Feed([ev |-> "handler", rq |-> r, scope |-> IF HasScope(c) THEN MyScope(r) ELSE NONE,
                     probe |-> IF HasScope(c) THEN MyProbe(r) ELSE 0])
            /\ (IF HasScope(c) THEN Claim(r) ELSE UNCHANGED nextScope)
            /\ pc' = [pc EXCEPT ![r] = IF HasScope(c) THEN "close" ELSE "finish"]
       ELSE IF ~c.scopemw THEN Feed([ev |-> "errh", rq |-> r, kind |-> "handle_scope"]) /\ pc' = [pc EXCEPT ![r] = "finish"] /\ UNCHANGED nextScope
       ELSE IF ~c.registered THEN Feed([ev |-> "errh", rq |-> r, kind |-> "handle_resolve"]) /\ pc' = [pc EXCEPT ![r] = "close"] /\ UNCHANGED nextScope
       ELSE /\ Feed([ev |-> "method", rq |-> r, scope |-> MyScope(r), probe |-> MyProbe(r), ctrl |-> r])
            /\ Claim(r)
            /\ pc' = [pc EXCEPT ![r] = IF c.method = "panic" /\ c.recovery THEN "panich" ELSE "close"]
    /\ UNCHANGED emitted
PanicH(r) == pc[r] = "panich" /\ Feed([ev |-> "errh", rq |-> r, kind |-> "panic"])
             /\ pc' = [pc EXCEPT ![r] = "close"] /\ UNCHANGED <<nextScope, emitted>>
\* closing the request scope: the scoped probe (if it was resolved) and the scope itself
Close(r) == /\ pc[r] = "close"
            /\ IF ms.reqs[r].probe # 0 /\ ms.reqs[r].probeClosed = 0
               THEN Feed([ev |-> "probe_close", probe |-> ms.reqs[r].probe]) /\ UNCHANGED pc
               ELSE IF ms.reqs[r].scope # NONE
               THEN Feed([ev |-> "scope_closed", scope |-> ms.reqs[r].scope])
                    /\ pc' = [pc EXCEPT ![r] = IF CloseFails(ms.cfg) /\ ms.reqs[r].probe # 0 THEN "closeerr"
                                                ELSE IF NoAbort(ms.cfg) THEN "resolveerr" ELSE "finish"]
               ELSE UNCHANGED <<ms, bad>> /\ pc' = [pc EXCEPT ![r] = "finish"]
            /\ UNCHANGED <<nextScope, emitted>>
ResolveErr(r) == pc[r] = "resolveerr" /\ Feed([ev |-> "errh", rq |-> r, kind |-> "handle_resolve"])
                 /\ pc' = [pc EXCEPT ![r] = "finish"] /\ UNCHANGED <<nextScope, emitted>>
CloseErr(r) == pc[r] = "closeerr" /\ Feed([ev |-> "closeerrh"]) /\ pc' = [pc EXCEPT ![r] = "finish"]
               /\ UNCHANGED <<nextScope, emitted>>
End == /\ \A r \in Reqs(ms.cfg) : pc[r] = "done"
       /\ ~emitted /\ emitted' = TRUE
       /\ Feed([ev |-> "end"]) /\ UNCHANGED <<pc, nextScope>>
Finish(r) == pc[r] = "finish" /\ Feed([ev |-> "done", rq |-> r, status |-> IF DefaultEH(ms.cfg) THEN 500 ELSE 0, panicked |-> PanicEscapes(ms.cfg)])
             /\ pc' = [pc EXCEPT ![r] = "done"] /\ UNCHANGED <<nextScope, emitted>>

Next == End \/ \E r \in 1..3 : Arrive(r) \/ ErrScope(r) \/ Mw(r) \/ ErrMw(r) \/ Handler(r) \/ PanicH(r) \/ Close(r) \/ CloseErr(r) \/ ResolveErr(r) \/ Finish(r)
Spec == Init /\ [][Next]_vars

Emit == IF EmitOn /\ \A r \in 1..3 : pc[r] = "new" THEN PrintT(<<"SCN", ToJson(ms.cfg)>>) ELSE TRUE

GuardsHold == bad = {}
AllDone == \A r \in Reqs(ms.cfg) : pc[r] = "done"
\* the end-to-end statement of C16 on the reference
EndState == AllDone => \A r \in Reqs(ms.cfg) :
    /\ (HasScope(ms.cfg) /\ (ms.reqs[r].scope # NONE)) => ms.reqs[r].closed = 1
    /\ \A q \in Reqs(ms.cfg) \ {r} : ms.reqs[r].scope = NONE \/ ms.reqs[r].scope # ms.reqs[q].scope
    /\ ms.reqs[r].handler => ms.reqs[r].errhs = <<>>
=============================================================================
