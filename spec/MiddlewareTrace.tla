---------------------------- MODULE MiddlewareTrace ----------------------------
EXTENDS Middleware, Json, IOUtils
CONSTANT Check
Trace == ndJsonDeserialize(IOEnv.VERIF_TRACE)
VARIABLES l, ms, viol, nev
tvars == <<l, ms, viol, nev>>
NoCfg == [fw |-> NONE, nmw |-> 0, mwfail |-> 0, handler |-> "ok", registered |-> TRUE, method |-> "ok", recovery |-> FALSE,
          scopemw |-> FALSE, provclosed |-> FALSE, batch |-> 0]
TInit == l = 1 /\ ms = MInit(NoCfg) /\ viol = {} /\ nev = 0
Step ==
    /\ l <= Len(Trace)
    /\ LET e  == Trace[l]
           gs == IF e.ev = "reset" THEN {} ELSE MGuards(ms, e)
       IN  /\ ms' = IF e.ev = "reset" THEN MInit(e.cfg) ELSE MApply(ms, e)
           /\ viol' = viol \cup UNION {{<<t, gd.name, l, gd.kf>> : t \in gd.tags \cap Check} : gd \in {x \in gs : ~x.ok}}
           /\ nev' = nev + Cardinality(gs)
    /\ l' = l + 1
Finish ==
    /\ l = Len(Trace) + 1
    /\ PrintT(<<"RESULT", ToJson([lines |-> Len(Trace), evals |-> nev, viol |-> viol])>>)
    /\ l' = l + 1
    /\ UNCHANGED <<ms, viol, nev>>
TNext == Step \/ Finish
TraceSpec == TInit /\ [][TNext]_tvars
=============================================================================
