------------------------------ MODULE ConcTrace ------------------------------
(***************************************************************************)
(* Outcome-level trace specification for CONCURRENT executions (schedule   *)
(* replays of ScopeConc behaviours and free-running parallel programs).    *)
(* Events of several processes are interleaved in the order they happened  *)
(* (every event is recorded atomically at its occurrence); the guards only *)
(* use what holds for every linearisation:                                 *)
(*   - a call that starts after a Close has RETURNED must be refused;      *)
(*     a call overlapping a Close may succeed or report the disposed error *)
(*   - results respect the lifetime rules (one singleton, one scoped       *)
(*     instance per scope, fresh transients)                               *)
(*   - an instance is closed at most once, never before something started  *)
(*     closing its owner, and exactly once by the time the provider is     *)
(*     closed; instances whose construction overlapped the Close are       *)
(*     disposed by the constructing call itself ("discard")                *)
(*   - no panic, no hang, no crash                                         *)
(***************************************************************************)
EXTENDS Container, Json, IOUtils

CONSTANT Check
Trace == ndJsonDeserialize(IOEnv.VERIF_TRACE)

VARIABLES l, cs, viol, nev
tvars == <<l, cs, viol, nev>>

EmptyCfg == [cid |-> NONE, regs |-> <<>>, faults |-> <<>>, closeerr |-> <<>>]
CInit(cfg) == [cfg |-> cfg, phase |-> "new", skip |-> FALSE,
               scopes |-> <<>>,        \* name -> [parent, closing (line of the first close trigger, 0 if none), closed]
               pclosing |-> 0, pclosed |-> FALSE, plost |-> FALSE,
               inst |-> <<>>,          \* id -> [reg, outs, owner, th, born, ready, returned, closed, discarded]
               curs |-> <<>>,          \* process -> call in progress
               reports |-> {},         \* [th, line]: Close calls that returned a disposal error
               waited |-> {},          \* [th, scope, line]: a Close in progress started waiting for that scope's disposal
               fails |-> {},           \* [inst, line, closer, cov]: failing instance closes and the Close calls in progress that cover them
               firsts |-> <<>>,        \* <<scope, reg>> -> first instance seen for that scoped registration (not discarded)
               handed |-> {}]

TInit == l = 1 /\ cs = CInit(EmptyCfg) /\ viol = {} /\ nev = 0

SNames == DOMAIN cs.scopes
RECURSIVE Anc(_)
Anc(s) == IF s \notin SNames \/ cs.scopes[s].parent = NONE THEN {} ELSE {cs.scopes[s].parent} \cup Anc(cs.scopes[s].parent)
SelfAnc(s) == {s} \cup Anc(s)
Sub(s) == {x \in SNames : s \in SelfAnc(x)}
\* the line at which something started closing s (its own Close / cancellation, an ancestor's, or the provider's)
ClosingLines(s) == {cs.scopes[a].closing : a \in {x \in SelfAnc(s) \cap SNames : cs.scopes[x].closing > 0}}
                   \cup (IF cs.pclosing > 0 THEN {cs.pclosing} ELSE {})
IsClosing(s) == ClosingLines(s) # {}
ClosingSince(s) == CHOOSE m \in ClosingLines(s) : \A k \in ClosingLines(s) : m <= k
\* a Close of s or of an ancestor, or of the provider, has already returned
\* closed: the Close that did the closing has returned - the scope and all its descendants refuse.
\* refuses: some Close call on this very scope has returned (possibly the idempotent no-op while the closing is
\* still in progress elsewhere) - the scope itself refuses, its descendants may not be closed yet.
IsClosed(s) == cs.pclosed \/ (s \in SNames /\ cs.scopes[s].refuses) \/ \E a \in SelfAnc(s) \cap SNames : cs.scopes[a].closed
ScopeOfTarget(sc) == IF sc = "prov" THEN "root" ELSE sc
Ids == DOMAIN cs.inst

CG(name, tags, ok) == [name |-> name, tags |-> tags, ok |-> ok, kf |-> NONE]
DisposedClasses == {"scopeDisposed", "providerDisposed"}
OverlapClasses == DisposedClasses \cup {"ctorError", "resolution"}

\* ---- call ---------------------------------------------------------------------------------
ApplyCall2(e) ==
    LET tgt == ScopeOfTarget(e.sc)
        rec == [op |-> e.op, sc |-> e.sc, name |-> e.name, t |-> e.t, k |-> e.k, line |-> l, nerr |-> 0, nself |-> 0, lost |-> FALSE, faulted |-> FALSE,
                mustRefuse |-> IF e.op \in {"resolve", "group", "create"}
                               THEN (IF e.sc = "prov" THEN cs.pclosed \/ cs.plost ELSE IsClosed(tgt)) ELSE FALSE,
                wasClosed |-> IF e.op = "closeprov" THEN cs.pclosing > 0
                              ELSE IF e.op \in {"close", "cancel"} THEN (tgt \in SNames /\ IsClosing(tgt)) ELSE FALSE]
        withCur == [cs EXCEPT !.curs = (e.th :> rec) @@ @]
    IN
    IF e.op = "build" THEN [withCur EXCEPT !.phase = "building", !.scopes = ("root" :> [parent |-> NONE, closing |-> 0, closed |-> FALSE, refuses |-> FALSE])]
    ELSE IF e.op \in {"close", "cancel"} /\ e.sc \in SNames /\ cs.scopes[e.sc].closing = 0
    THEN [withCur EXCEPT !.scopes = [@ EXCEPT ![e.sc] = [@ EXCEPT !.closing = l]]]
    ELSE IF e.op = "closeprov" /\ cs.pclosing = 0 THEN [withCur EXCEPT !.pclosing = l]
    ELSE withCur

\* ---- ctor ---------------------------------------------------------------------------------
\* Is instance j still held by its scope?  A disposable one until it is closed.  One that is not disposable
\* never shows a close event: it shares the fate of the disposable outputs of the same invocation (a refused
\* store discards all of them); if the invocation has none, it can only have been dropped by a scope that is
\* being closed.
StillHeld(j) ==
    LET me == cs.inst[j]
        sib == {k \in Ids : cs.inst[k].reg = me.reg /\ cs.inst[k].born = me.born /\ cs.inst[k].disp}
    IN IF me.disp THEN me.closed = 0
       ELSE IF sib # {} THEN \E k \in sib : cs.inst[k].closed = 0
       ELSE ~(me.owner \in SNames /\ IsClosing(me.owner))

GuardsCtor2(e) ==
    LET r == Reg(cs.cfg, e.reg)
        ok == e.outcome = "ok"
    IN
    {CG("singleton_only_at_build", {"C01"}, r.life = "singleton" => cs.phase = "building"),
     CG("one_live_scoped_instance", {"C02", "C09"}, (r.life = "scoped" /\ ok) =>
           \A j \in Ids : (cs.inst[j].reg = e.reg /\ cs.inst[j].owner = e.scope) => ~StillHeld(j)),
     CG("scoped_dependency_same_scope", {"C02", "C09"}, (r.life = "scoped" /\ ok) =>
           \A a \in Range(e.args) : \A j \in Range(a.ids) :
               (j \in Ids /\ cs.inst[j].life = "scoped") => cs.inst[j].owner = e.scope),
     \* a transient instance is given to one consumer only: not to two constructor invocations, not twice to one,
     \* and not to a constructor after it was returned to a caller
     CG("transient_handed_once", {"C03", "C09"},
           \A a \in Range(e.args) : \A x \in DOMAIN a.ids :
               LET j == a.ids[x] IN
               (j \in Ids /\ cs.inst[j].life = "transient") =>
                   /\ j \notin cs.handed
                   /\ Cardinality({<<b, y>> \in UNION {{<<bb, yy>> : yy \in DOMAIN e.args[bb].ids} : bb \in DOMAIN e.args} :
                                       e.args[b].ids[y] = j}) = 1),
     \* the built-in Scope / Context handed to a constructor belong to the scope the service is constructed for
     \* (the root scope for singletons)
     CG("builtin_args_of_own_scope", {"C18", "C09"},
           \A a \in Range(e.args) : a.k \in {"scope", "ctx"} => a.s = (IF r.life = "singleton" THEN "root" ELSE e.scope)),
     CG("constructed_in_live_scope", {"C13"}, TRUE)}

\* an instance value registered as a singleton (not created by the container)
ApplyInst2(e) ==
    [cs EXCEPT !.inst = (e.id :> [reg |-> e.reg, outs |-> {1}, owner |-> "prov", life |-> "singleton", disp |-> DispOf(cs.cfg, e.reg, 1),
                                  value |-> TRUE, th |-> "main", born |-> l, ready |-> l, returned |-> FALSE, closed |-> 0,
                                  closedAt |-> 0, discarded |-> FALSE, failed |-> FALSE, deps |-> {}]) @@ @]

ApplyCtor2(e) ==
    LET r == Reg(cs.cfg, e.reg)
        owner == IF r.life = "singleton" THEN "prov" ELSE e.scope
        newIds == IF e.outcome = "ok" THEN Range(e.outs) ELSE {}
        recs == [i \in newIds |-> [reg |-> e.reg, outs |-> {x \in DOMAIN e.outs : e.outs[x] = i}, owner |-> owner, life |-> r.life,
                                   disp |-> LET o == CHOOSE x \in DOMAIN e.outs : e.outs[x] = i
                                            IN DispOf(cs.cfg, e.reg, o) /\ o \notin Rm(r),   \* a removed output is dropped, not tracked
                                   value |-> FALSE,
                                   th |-> e.th, born |-> l, ready |-> 0, returned |-> FALSE, closed |-> 0, closedAt |-> 0, discarded |-> FALSE, failed |-> FALSE,
                                   deps |-> UNION {Range(e.args[j].ids) : j \in DOMAIN e.args}]]
        usedTr == {j \in UNION {Range(e.args[b].ids) : b \in DOMAIN e.args} : j \in Ids /\ cs.inst[j].life = "transient"}
    IN [cs EXCEPT !.inst = recs @@ @, !.handed = @ \cup usedTr,
                  \* a scripted constructor failure inside a call: that call may report it
                  !.curs = IF e.outcome # "ok" /\ e.th \in DOMAIN @ THEN [@ EXCEPT ![e.th] = [@ EXCEPT !.faulted = TRUE]] ELSE @]

\* ---- close --------------------------------------------------------------------------------
IsDiscard(e) == e.inst \in Ids /\ cs.inst[e.inst].th = e.th /\ cs.inst[e.inst].ready = 0 /\ ~cs.inst[e.inst].returned
                /\ e.th \in DOMAIN cs.curs /\ cs.curs[e.th].op \in {"resolve", "group", "create"}

GuardsClose2(e) ==
    IF e.inst \notin Ids THEN {CG("close_of_unknown_instance", {"C10"}, FALSE)}
    ELSE
    LET me == cs.inst[e.inst]
        discard == IsDiscard(e)
        closing == IF me.owner = "prov" THEN cs.pclosing > 0 \/ cs.phase = "building" ELSE IsClosing(me.owner) \/ ~(me.owner \in SNames)
        since == IF me.owner = "prov" THEN cs.pclosing ELSE IF me.owner \in SNames /\ IsClosing(me.owner) THEN ClosingSince(me.owner) ELSE 0
        settledBefore(j) == cs.inst[j].ready > 0 /\ cs.inst[j].ready < since /\ cs.inst[j].disp /\ ~cs.inst[j].value
    IN
    {CG("closed_at_most_once", {"C10", "C12", "C09"}, me.closed = 0),
     CG("not_closed_while_owner_open", {"C10", "C09"}, closing),
     \* under concurrency "creation order" is only defined through dependencies: whoever received this instance as
     \* a constructor argument (and lives in the same owner) is closed before it
     CG("dependents_closed_first", {"C11"}, ~discard =>
          \A j \in Ids : (cs.inst[j].owner = me.owner /\ e.inst \in cs.inst[j].deps /\ ~cs.inst[j].discarded /\ cs.inst[j].ready > 0
                             /\ cs.inst[j].disp /\ ~me.value) => cs.inst[j].closed > 0),
     \* (also for an instance that its creator disposes because the scope is closing: such a discard only happens once
     \* the scope has drained its own instances, i.e. after its descendants were disposed)
     CG("descendants_before_parent", {"C11"}, (me.owner \in SNames /\ since > 0) =>
          \A j \in Ids : (cs.inst[j].owner \in (Sub(me.owner) \ {me.owner}) /\ settledBefore(j)) => cs.inst[j].closed >= 1),
     CG("scopes_before_singletons", {"C11"}, (me.owner = "prov" /\ since > 0) =>
          \A j \in Ids : (cs.inst[j].owner # "prov" /\ settledBefore(j)) => cs.inst[j].closed >= 1)}

\* a failing instance Close counts for every Close call in progress whose subtree contains the instance's owner and
\* that is performed by the closing process itself or by a context watcher (whose result nobody else receives)
IsWatcher(th) == Len(th) > 2 /\ SubSeq(th, 1, 2) = "w:"
Covers(c, owner) == IF c.op = "closeprov" THEN TRUE
                    ELSE c.op = "close" /\ c.sc \in SNames /\ owner \in Sub(c.sc)
CoversTarget(c2, c) == IF c2.op = "closeprov" THEN TRUE
                       ELSE c.op = "close" /\ c2.sc \in SNames /\ c.sc \in Sub(c2.sc)
ApplyClose2(e) ==
    IF e.inst \notin Ids THEN cs
    ELSE LET owner == cs.inst[e.inst].owner
             cov == {th \in DOMAIN cs.curs : cs.curs[th].op \in {"close", "closeprov"} /\ Covers(cs.curs[th], owner)}
         IN [cs EXCEPT !.inst = [@ EXCEPT ![e.inst] = [@ EXCEPT !.closed = @ + 1, !.closedAt = l, !.discarded = IsDiscard(e), !.failed = e.outcome = "err"]],
                       !.fails = IF e.outcome = "err" THEN @ \cup {[inst |-> e.inst, line |-> l, closer |-> e.th, cov |-> cov]} ELSE @]

\* the scopes a Close answers for: those whose completion it waited for, and - through the watcher that closed
\* such a scope on its behalf - those that watcher waited for in turn
WaitedBy(th, since) == {w.scope : w \in {x \in cs.waited : x.th = th /\ x.line > since}}
RECURSIVE RespScopes(_, _)
RespScopes(S, since) ==
    LET more == S \cup UNION {WaitedBy("w:" \o y, since) : y \in S}
    IN IF more = S THEN S ELSE RespScopes(more, since)

\* ---- ret ----------------------------------------------------------------------------------
GuardsRet2(e) ==
    LET c == cs.curs[e.th]
        err == Range(e.err)
        tgt == ScopeOfTarget(c.sc)
    IN
    {CG("no_panic", {"C09", "C13", "C15"}, ~e.panic)} \cup
    (IF c.op = "build" THEN {CG("build_ok", {"C08"}, err = {})}
     ELSE IF c.op \in {"resolve", "create", "group"} THEN
        {CG("refused_after_close", {"C13"}, c.mustRefuse => (err \cap DisposedClasses # {})),
         CG("only_documented_errors", {"C09", "C13"}, err # {} =>
               \/ (c.op = "resolve" /\ ~HasProvider(cs.cfg, c.t, c.k) /\ "notfound" \in err)   \* e.g. a removed output
               \/ (c.faulted /\ err \cap {"ctorError", "ctorPanic"} # {})                        \* a scripted constructor failure
               \/ /\ err \cap DisposedClasses # {} /\ err \subseteq OverlapClasses
                  /\ (IF c.sc = "prov" THEN cs.pclosing > 0 ELSE (tgt \in SNames /\ IsClosing(tgt)))),
         CG("failed_call_returns_nothing", {"C13", "C15"}, err # {} => e.res.k = "none")}
        \cup (IF c.op = "resolve" /\ err = {} /\ HasProvider(cs.cfg, c.t, c.k) THEN
                LET p == ProviderOf(cs.cfg, c.t, c.k)
                    life == LifeOf(cs.cfg, p[1])
                    okval == e.res.k = "inst" /\ Len(e.res.ids) = 1 /\ e.res.ids[1] \in Ids
                    v == e.res.ids[1]
                IN
                {CG("result_is_an_instance", {"C09", "C04"}, okval /\ cs.inst[v].reg = p[1] /\ p[2] \in cs.inst[v].outs),
                 CG("singleton_same_instance", {"C01", "C09"}, (okval /\ life = "singleton") => cs.inst[v].owner = "prov"),
                 CG("scoped_same_instance", {"C02", "C09"}, (okval /\ life = "scoped") =>
                       /\ cs.inst[v].owner = tgt
                       /\ (<<tgt, p[1], p[2]>> \in DOMAIN cs.firsts => cs.firsts[<<tgt, p[1], p[2]>>] = v)),
                 CG("transient_fresh", {"C03", "C09"}, (okval /\ life = "transient") =>
                       (cs.inst[v].owner = tgt /\ v \notin cs.handed))}
              ELSE {})
     ELSE IF c.op \in {"close", "closeprov"} THEN
        \* a Close answers for the failing instance closes it performed itself and for those in the subtree of every scope
        \* whose disposal it waited for (that is where it collects what a context watcher closed on its behalf)
        {CG("close_reports_failures_in_its_subtree", {"C12"}, "disposal" \notin err =>
               \A f \in {x \in cs.fails : x.line > c.line} :
                   /\ f.closer # e.th
                   /\ (IsWatcher(f.closer) =>      \* closed by a context watcher: nobody else received that failure
                        cs.inst[f.inst].owner \notin RespScopes(WaitedBy(e.th, c.line), c.line))),
         CG("close_error_only_if_something_failed", {"C12"}, err # {} =>
               /\ err \subseteq {"disposal"}
               /\ \E i \in Ids : cs.inst[i].failed /\ Covers(c, cs.inst[i].owner)),
         \* the Close that did the work (not one that lost the race and returned early) returns only when everything
         \* its scope and every descendant owned when it started has been disposed: closing a scope closes its descendants
         CG("close_returns_after_subtree_disposed", {"C13", "C10", "C11"},
               (~c.lost /\ ~e.panic /\ (c.op = "closeprov" \/ c.sc \in SNames)) =>
               \A i \in Ids : (cs.inst[i].disp /\ ~cs.inst[i].value /\ cs.inst[i].born < c.line /\ cs.inst[i].ready > 0
                                /\ cs.inst[i].ready < c.line /\ Covers(c, cs.inst[i].owner)) => cs.inst[i].closed >= 1)}
     ELSE {})

ApplyRet2(e) ==
    LET c == cs.curs[e.th]
        err == Range(e.err)
        tgt == ScopeOfTarget(c.sc)
        mine == {i \in Ids : cs.inst[i].th = e.th /\ cs.inst[i].born > c.line}
        val == IF e.res.k = "inst" /\ Len(e.res.ids) = 1 /\ e.res.ids[1] \in Ids THEN {e.res.ids[1]} ELSE {}
        base == [cs EXCEPT !.curs = [x \in (DOMAIN @) \ {e.th} |-> @[x]],
                           !.inst = [i \in Ids |-> IF i \in mine \/ i \in val
                                                    THEN [@[i] EXCEPT !.ready = IF @ = 0 THEN l ELSE @, !.returned = @ \/ (i \in val)]
                                                    ELSE @[i]]]
    IN
    IF c.op = "build" THEN [base EXCEPT !.phase = IF err = {} THEN "built" ELSE "failed"]
    ELSE IF c.op = "create" /\ err = {} /\ ~e.panic THEN
        [base EXCEPT !.scopes = (c.name :> [parent |-> IF c.sc = "prov" THEN NONE ELSE c.sc, closing |-> 0, closed |-> FALSE, refuses |-> FALSE]) @@ @]
    ELSE IF c.op = "resolve" /\ err = {} /\ val # {} THEN
        LET v == e.res.ids[1]
            life == cs.inst[v].life
            fk == <<tgt, cs.inst[v].reg, IF HasProvider(cs.cfg, c.t, c.k) THEN ProviderOf(cs.cfg, c.t, c.k)[2] ELSE 0>>
        IN [base EXCEPT !.firsts = IF life = "scoped" /\ fk \notin DOMAIN @ THEN (fk :> v) @@ @ ELSE @,
                        !.handed = IF life = "transient" THEN @ \cup {v} ELSE @]
    ELSE IF c.op = "close" /\ c.sc \in SNames THEN
        [base EXCEPT !.reports = IF "disposal" \in err THEN @ \cup {[th |-> e.th, line |-> l]} ELSE @,
                     \* a Close that returned means the scope refuses from now on; its descendants are closed for sure
                     \* only when this was the Close that did the closing (not the idempotent no-op)
                     !.scopes = [s \in SNames |-> IF s \in Sub(c.sc) /\ ~c.lost
                                                  THEN [@[s] EXCEPT !.closed = TRUE, !.refuses = TRUE, !.closing = IF @ = 0 THEN c.line ELSE @]
                                                  ELSE IF s = c.sc THEN [@[s] EXCEPT !.refuses = TRUE, !.closing = IF @ = 0 THEN c.line ELSE @]
                                                  ELSE @[s]]]
    ELSE IF c.op = "closeprov" THEN [base EXCEPT !.pclosed = ~c.lost \/ @, !.plost = @ \/ c.lost,
                                                  !.reports = IF "disposal" \in err THEN @ \cup {[th |-> e.th, line |-> l]} ELSE @]
    ELSE base

\* ---- end of scenario ------------------------------------------------------------------------
GuardsObs2(e) ==
    {CG("all_closed_exactly_once", {"C10", "C09"}, cs.pclosed => \A i \in Ids :
          IF cs.inst[i].disp /\ ~cs.inst[i].value THEN cs.inst[i].closed = 1 ELSE cs.inst[i].closed <= 1),
     CG("no_goroutine_left", {"C14", "C09"}, cs.pclosed => e.goroutines <= 0),
     CG("closed_scopes_unreachable", {"C14"}, cs.pclosed => e.alive_scopes = <<>>),
     CG("instances_unreachable", {"C14"}, cs.pclosed => e.alive_insts = <<>>),
     \* looking back at the whole execution: whatever a successfully created scope owned was disposed before
     \* anything its parent scope owned (discarded results of refused stores aside)
     CG("children_disposed_before_parent_instances", {"C11"},
          \A sc \in SNames \ {"root"} :
             LET p == IF cs.scopes[sc].parent = NONE THEN "root" ELSE cs.scopes[sc].parent IN
             \A i, j \in Ids :
                (cs.inst[i].owner = sc /\ cs.inst[j].owner = p /\ cs.inst[i].closedAt > 0 /\ cs.inst[j].closedAt > 0
                 /\ ~cs.inst[i].discarded /\ ~cs.inst[j].discarded) => cs.inst[i].closedAt < cs.inst[j].closedAt),
     CG("refused_creation_leaves_nothing", {"C14"}, \A i \in DOMAIN e.orphans : e.orphans[i] = "canceled"),
     CG("contexts_cancelled", {"C14", "C13"}, cs.pclosed => \A s \in (SNames \ {"root"}) \cap DOMAIN e.ctx : e.ctx[s] = "canceled")}

Guards2(e) ==
    IF cs.skip THEN {}
    ELSE IF e.ev = "ctor" THEN GuardsCtor2(e)
    ELSE IF e.ev = "close" THEN GuardsClose2(e)
    ELSE IF e.ev = "ret" /\ e.th \in DOMAIN cs.curs THEN GuardsRet2(e)
    ELSE IF e.ev = "obs" THEN GuardsObs2(e)
    ELSE IF e.ev = "storm" THEN
        \* k goroutines called Close on one scope at the same instant: every instance closed exactly once, nobody
        \* panicked, and exactly one caller got the disposal error when an instance's Close failed (nil otherwise)
        {CG("storm_instances_closed_exactly_once", {"C12", "C10", "C09"}, \A i \in DOMAIN e.closes : e.closes[i] = 1),
         CG("storm_no_panic", {"C12", "C09"}, e.panics = 0),
         CG("storm_one_report", {"C12"}, e.errs = IF e.fail THEN 1 ELSE 0)}
    ELSE IF e.ev = "rstorm" THEN
        \* k goroutines issued the FIRST resolutions in a fresh scope at the same instant (asked / distinct / runs are
        \* <<scoped A, scoped B, transient T, singleton S>>): the scope ends up with one instance per scoped service,
        \* each scoped constructor ran once (A depends on B, so B is constructed whenever A is), every transient
        \* request got an instance of its own from an invocation of its own, the singleton constructor did not run
        \* again, nobody failed, and the Close that follows closes every instance exactly once
        {CG("rstorm_one_scoped_instance", {"C02", "C09"},
              /\ (e.asked[1] > 0 => e.distinct[1] = 1) /\ (e.asked[2] > 0 => e.distinct[2] = 1)),
         CG("rstorm_scoped_constructed_once", {"C02", "C09"},
              /\ e.runs[1] = (IF e.asked[1] > 0 THEN 1 ELSE 0)
              /\ e.runs[2] = (IF e.asked[1] + e.asked[2] > 0 THEN 1 ELSE 0)),
         CG("rstorm_transients_distinct", {"C03", "C09"}, e.distinct[3] = e.asked[3] /\ e.runs[3] = e.asked[3]),
         CG("rstorm_singleton_untouched", {"C01", "C09"}, (e.asked[4] > 0 => e.distinct[4] = 1) /\ e.runs[4] = 0),
         CG("rstorm_no_failure", {"C01", "C02", "C03", "C09", "C15"}, e.errs = 0 /\ e.panics = 0 /\ e.closeerr = 0),
         CG("rstorm_closed_exactly_once", {"C10", "C09"},
              /\ \A i \in DOMAIN e.closes : e.closes[i] = 1
              /\ Len(e.closes) = e.runs[1] + e.runs[2] + e.runs[3])}
    ELSE IF e.ev = "sstorm" THEN
        \* k goroutines, each in a fresh scope of its own, resolved the scoped A (which depends on the scoped B) at the
        \* same instant - the same constructors ran in k scopes at once: every A was constructed with the B of ITS scope,
        \* no two scopes share an A or a B, each constructor ran once per scope, everything closed once
        {CG("sstorm_dependency_of_own_scope", {"C02", "C04", "C09"}, e.crossed = 0),
         CG("sstorm_scopes_share_nothing", {"C02", "C09"}, e.shared = 0),
         CG("sstorm_once_per_scope", {"C02", "C09"}, e.runs[1] = e.k /\ e.runs[2] = e.k),
         CG("sstorm_no_failure", {"C02", "C09", "C15"}, e.errs = 0 /\ e.panics = 0 /\ e.closeerr = 0),
         CG("sstorm_closed_exactly_once", {"C10", "C09"}, (\A i \in DOMAIN e.closes : e.closes[i] = 1) /\ Len(e.closes) = 2 * e.k)}
    ELSE IF e.ev \in {"hang", "fatal"} THEN {CG("no_hang_no_crash", AllProps, FALSE)}
    ELSE {}

Apply2(e) ==
    IF cs.skip THEN cs
    ELSE IF e.ev = "adderr" THEN [cs EXCEPT !.skip = TRUE]
    ELSE IF e.ev = "call" THEN ApplyCall2(e)
    ELSE IF e.ev = "ctor" THEN ApplyCtor2(e)
    ELSE IF e.ev = "inst" THEN ApplyInst2(e)
    ELSE IF e.ev = "close" THEN ApplyClose2(e)
    ELSE IF e.ev = "ret" /\ e.th \in DOMAIN cs.curs THEN ApplyRet2(e)
    ELSE IF e.ev = "step" /\ e.at \in {"R_check", "K_check", "G_check"} /\ e.th \in DOMAIN cs.curs
            /\ cs.curs[e.th].op \in {"resolve", "group", "create"} THEN
        \* under the scheduler a call is announced when its goroutine starts but only begins when it is released
        \* at its first gate (which precedes the disposed check): a Close that has returned by now must be seen
        LET c == cs.curs[e.th]
            now == IF c.sc = "prov" THEN cs.pclosed \/ cs.plost ELSE IsClosed(ScopeOfTarget(c.sc))
        IN [cs EXCEPT !.curs = [@ EXCEPT ![e.th] = [@ EXCEPT !.mustRefuse = @ \/ now]]]
    ELSE IF e.ev = "waits" THEN [cs EXCEPT !.waited = @ \cup {[th |-> e.th, scope |-> e.scope, line |-> l]}]
    ELSE IF e.ev = "noop" /\ e.th \in DOMAIN cs.curs THEN
        \* the Close in progress on that target lost the compare-and-swap: it is the no-op, the closing is somebody else's
        (IF (cs.curs[e.th].op = "close" /\ cs.curs[e.th].sc = e.scope) \/ (cs.curs[e.th].op = "closeprov" /\ e.scope = "prov")
         THEN [cs EXCEPT !.curs = [@ EXCEPT ![e.th] = [@ EXCEPT !.lost = TRUE]]] ELSE cs)
    ELSE cs

Step ==
    /\ l <= Len(Trace)
    /\ LET e  == Trace[l]
           gs == IF e.ev = "reset" THEN {} ELSE Guards2(e)
       IN  /\ cs' = IF e.ev = "reset" THEN CInit(e.cfg) ELSE Apply2(e)
           /\ viol' = viol \cup UNION {{<<t, gd.name, l, gd.kf>> : t \in gd.tags \cap Check} : gd \in {x \in gs : ~x.ok}}
           /\ nev' = nev + Cardinality(gs)
    /\ l' = l + 1

Finish ==
    /\ l = Len(Trace) + 1
    /\ PrintT(<<"RESULT", ToJson([lines |-> Len(Trace), evals |-> nev, viol |-> viol])>>)
    /\ l' = l + 1
    /\ UNCHANGED <<cs, viol, nev>>

TNext == Step \/ Finish
TraceSpec == TInit /\ [][TNext]_tvars
=============================================================================
