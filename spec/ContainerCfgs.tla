---------------------------- MODULE ContainerCfgs ----------------------------
(* Curated registration sets for the history model: one per registration     *)
(* form and per defect shape, with fault-script and close-error variants.    *)
(* Every configuration only uses constructor signatures of the harness'      *)
(* generated library (gen/genlib.py).                                        *)
EXTENDS Naturals, Sequences, TLC

N == "-"
P(t)  == [t |-> t, k |-> N, g |-> N, opt |-> FALSE, b |-> N]
PK(t) == [t |-> t, k |-> "k", g |-> N, opt |-> FALSE, b |-> N]
PG(t) == [t |-> t, k |-> N, g |-> "g", opt |-> FALSE, b |-> N]
PO(t) == [t |-> t, k |-> N, g |-> N, opt |-> TRUE, b |-> N]
PQ(t) == [t |-> t, k |-> "k", g |-> N, opt |-> TRUE, b |-> N]
PB(b) == [t |-> b, k |-> N, g |-> N, opt |-> FALSE, b |-> b]
B3 == <<PB("ctx"), PB("scope"), PB("prov")>>
PBK(b) == [t |-> b, k |-> "k", g |-> N, opt |-> FALSE, b |-> N]   \* a built-in TYPE requested with a name: not a built-in
PE(t) == P(t) @@ [emb |-> TRUE]      \* declared as an embedded (anonymous) field of the parameter object

R(id, life, slot, var, shape, po, params) ==
    [id |-> id, life |-> life, slot |-> slot, slot2 |-> 0, var |-> var, shape |-> shape, po |-> po,
     name |-> N, group |-> N, as |-> <<>>, params |-> params, kind |-> ""]
Kinded(r, k) == [r EXCEPT !.kind = k]
Named(r)    == [r EXCEPT !.name = "k"]
Grouped(r)  == [r EXCEPT !.group = "g"]
As(r, is)   == [r EXCEPT !.as = is]
Two(r, s2)  == [r EXCEPT !.slot2 = s2]

C(cid, regs) == [cid |-> cid, regs |-> regs, faults |-> <<>>, closeerr |-> <<>>]
WithFault(c, reg, at, how) == [c EXCEPT !.cid = @ \o "+" \o reg \o "@" \o ToString(at) \o how,
                                        !.faults = <<[reg |-> reg, at |-> at, how |-> how]>>]
WithCloseErr(c, regs) == [c EXCEPT !.cid = @ \o "+ce" \o ToString(Len(regs)) \o (IF Len(regs) > 0 THEN regs[1] ELSE ""),
                                   !.closeerr = regs]

SG == "singleton"
SC == "scoped"
TR == "transient"

\* singleton S0; scoped S1(S0, S2) via parameter object; transient S2
Basic == C("basic", <<R("r1", SG, 0, "a", "ctorerr", FALSE, <<>>),
                      R("r2", SC, 1, "a", "ctorerr", TRUE, <<P("S0"), P("S2")>>),
                      R("r3", TR, 2, "a", "ctorerr", FALSE, <<>>)>>)

\* singleton chain S1(S0), scoped S2(S1), transient S3(S1) (S3 is not disposable)
Chain == C("chain", <<R("r2", SG, 1, "a", "ctorerr", FALSE, <<P("S0")>>),
                      R("r1", SG, 0, "a", "ctor", FALSE, <<>>),
                      R("r3", SC, 2, "a", "ctorerr", FALSE, <<P("S1")>>),
                      R("r4", TR, 3, "a", "ctorerr", FALSE, <<P("S1")>>)>>)

\* keyed singleton S0/"k" and unkeyed transient S0; scoped S1 consuming both
Keyed == C("keyed", <<Named(R("r1", SG, 0, "a", "ctorerr", FALSE, <<>>)),
                      R("r2", TR, 0, "b", "ctorerr", FALSE, <<>>),
                      R("r3", SC, 1, "a", "ctorerr", TRUE, <<P("S0"), PK("S0")>>)>>)

\* group g of S1: a singleton member and a transient member; scoped consumer S0; transient consumer S2
Group == C("group", <<Grouped(R("r1", SG, 1, "a", "ctorerr", FALSE, <<>>)),
                      Grouped(R("r2", TR, 1, "b", "ctorerr", FALSE, <<>>)),
                      R("r3", SC, 0, "a", "ctorerr", TRUE, <<PG("S1")>>),
                      R("r4", TR, 2, "a", "ctorerr", TRUE, <<PG("S1"), PG("S3")>>)>>)

\* group with a scoped member consumed by a scoped service
GroupScoped == C("groupscoped", <<Grouped(R("r1", SC, 1, "a", "ctorerr", FALSE, <<>>)),
                                  Grouped(R("r2", SG, 1, "b", "ctorerr", FALSE, <<>>)),
                                  R("r3", SC, 0, "a", "ctorerr", TRUE, <<PG("S1")>>)>>)

\* singleton consuming a group whose singleton members have their own dependency
GroupDeps == C("groupdeps", <<R("r0", SG, 3, "a", "ctorerr", FALSE, <<>>),
                              R("r3", SG, 0, "a", "ctorerr", TRUE, <<PG("S1")>>),
                              Grouped(R("r1", SG, 1, "a", "ctorerr", FALSE, <<P("S3")>>)),
                              Grouped(R("r2", SG, 1, "b", "ctorerr", FALSE, <<P("S3")>>))>>)

\* multiple return values: singleton (S0,S1); scoped (S2,S3,error) depending on S0
Multi == C("multi", <<Two(R("r1", SG, 0, "a", "multi", FALSE, <<>>), 1),
                      Two(R("r2", SC, 2, "a", "multierr", FALSE, <<P("S0")>>), 3)>>)
MultiTr == C("multitr", <<Two(R("r1", TR, 0, "a", "multierr", FALSE, <<>>), 1),
                          R("r2", SC, 2, "a", "ctorerr", FALSE, <<P("S0"), P("S1")>>)>>)

\* result objects
OutKN == C("outkn", <<Two(R("r1", SC, 0, "a", "outkn", FALSE, <<>>), 1),
                      R("r2", SC, 2, "a", "ctorerr", TRUE, <<P("S0"), PK("S1")>>)>>)
OutKNSing == C("outknsing", <<Two(R("r1", SG, 0, "a", "outkn", FALSE, <<>>), 1),
                              R("r2", TR, 2, "a", "ctorerr", TRUE, <<P("S0"), PK("S1")>>)>>)

\* parameter objects taken BY POINTER (func(in *Params) ...) and result objects returned BY POINTER: the meaning is
\* that of the by-value forms
PtrOf(c, cid, ids) == [c EXCEPT !.cid = cid, !.regs = [i \in DOMAIN @ |-> IF @[i].id \in ids THEN Kinded(@[i], "ptr") ELSE @[i]]]
BasicPtr == PtrOf(Basic, "basicptr", {"r2"})
OutKNPtr == PtrOf(OutKN, "outknptr", {"r1", "r2"})
OutKNSingPtr == PtrOf(OutKNSing, "outknsingptr", {"r1", "r2"})
CfgPtr == {BasicPtr, OutKNPtr, OutKNSingPtr}

\* one interface alias; two interface aliases of one constructor
Alias1 == C("alias1", <<As(R("r1", SG, 0, "a", "ctorerr", FALSE, <<>>), <<"I0">>),
                        As(R("r2", SC, 1, "a", "ctorerr", FALSE, <<>>), <<"I1">>)>>)
Alias2 == C("alias2", <<As(R("r1", SG, 0, "a", "ctorerr", FALSE, <<>>), <<"I0", "I1">>)>>)
Alias2Scoped == C("alias2sc", <<As(R("r1", SC, 0, "a", "ctorerr", FALSE, <<>>), <<"I0", "I1">>)>>)

\* the same transient injected twice into one constructor, and into a singleton at Build
Diamond == C("diamond", <<R("r1", TR, 2, "a", "ctorerr", FALSE, <<>>),
                          R("r2", SC, 1, "a", "ctorerr", FALSE, <<P("S2"), P("S2")>>),
                          R("r3", SG, 0, "a", "ctorerr", FALSE, <<P("S2")>>),
                          R("r4", TR, 3, "a", "ctorerr", FALSE, <<P("S1"), P("S2")>>)>>)
\* transient depending on scoped is a conflict, so Diamond's r4 depends on scoped S1: make it scoped instead
Diamond2 == [Diamond EXCEPT !.regs = <<R("r1", TR, 2, "a", "ctorerr", FALSE, <<>>),
                                        R("r2", SC, 1, "a", "ctorerr", FALSE, <<P("S2"), P("S2")>>),
                                        R("r3", SG, 0, "a", "ctorerr", FALSE, <<P("S2")>>),
                                        R("r4", SC, 3, "a", "ctorerr", FALSE, <<P("S1"), P("S2")>>)>>]

\* optional fields: registered, missing, keyed-missing
Optional == C("optional", <<R("r1", SC, 0, "a", "ctorerr", TRUE, <<PO("S1"), PO("S2")>>),
                            R("r2", TR, 1, "a", "ctorerr", FALSE, <<>>),
                            R("r3", SG, 3, "a", "ctorerr", TRUE, <<PQ("S1"), PO("S2")>>)>>)

\* scope initializers (void and error-returning) next to ordinary services
Inits == C("inits", <<R("r1", SG, 0, "a", "ctorerr", FALSE, <<>>),
                      R("r2", SC, 0, "a", "init", FALSE, <<P("S1")>>),
                      R("r3", SC, 1, "a", "ctorerr", FALSE, <<>>),
                      R("r4", SC, 0, "b", "initerr", FALSE, <<>>)>>)
\* an initializer that depends on a singleton
InitSing == C("initsing", <<R("r1", SG, 0, "a", "ctorerr", FALSE, <<>>),
                            R("r2", SC, 0, "a", "initerr", FALSE, <<P("S0")>>)>>)

\* built-in injectables, positional and as parameter-object fields, in all three lifetimes
Builtin == C("builtin", <<R("r1", SG, 0, "a", "ctorerr", FALSE, B3),
                          R("r2", SC, 1, "a", "ctorerr", TRUE, B3),
                          R("r3", TR, 2, "a", "ctorerr", FALSE, B3 \o <<P("S0")>>),
                          R("r4", SC, 0, "a", "initerr", FALSE, B3)>>)

\* singleton instance value
InstVal == C("instval", <<R("r1", SG, 0, "a", "inst", FALSE, <<>>),
                          R("r2", SC, 1, "a", "ctorerr", FALSE, <<P("S0")>>)>>)

\* several instance values of ONE Go type: unkeyed, named, and two members of a group
InstVals == C("instvals", <<R("r1", SG, 0, "a", "inst", FALSE, <<>>),
                            Named(R("r2", SG, 0, "a", "inst", FALSE, <<>>)),
                            Grouped(R("r3", SG, 1, "a", "inst", FALSE, <<>>)),
                            Grouped(R("r4", SG, 1, "a", "inst", FALSE, <<>>)),
                            R("r5", SC, 2, "a", "ctorerr", TRUE, <<P("S0"), PK("S0")>>),
                            R("r6", SC, 3, "a", "ctorerr", TRUE, <<PG("S1")>>)>>)

\* instance values that are NOT pointers (type W, registered by value): unkeyed, named, three group members
InstValsV == C("instvalsv", <<R("r1", SG, 0, "a", "instv", FALSE, <<>>),
                              Named(R("r2", SG, 0, "a", "instv", FALSE, <<>>)),
                              Grouped(R("r3", SG, 0, "a", "instv", FALSE, <<>>)),
                              Grouped(R("r4", SG, 0, "a", "instv", FALSE, <<>>)),
                              Grouped(R("r5", SG, 0, "a", "instv", FALSE, <<>>)),
                              R("r6", SC, 1, "a", "ctorerr", FALSE, <<>>)>>)

\* defect shapes (Build must refuse): cycle, cycle through a group, lifetime conflict, missing dependency
Cycle2 == C("cycle2", <<R("r1", SC, 0, "a", "ctorerr", FALSE, <<P("S1")>>),
                        R("r2", SC, 1, "a", "ctorerr", FALSE, <<P("S0")>>)>>)
CycleGroup == C("cyclegroup", <<Grouped(R("r1", SC, 0, "a", "ctorerr", FALSE, <<P("S1")>>)),
                                R("r2", SC, 1, "a", "ctorerr", TRUE, <<PG("S0")>>)>>)
Captive == C("captive", <<R("r1", SC, 0, "a", "ctorerr", FALSE, <<>>),
                          R("r2", SG, 1, "a", "ctorerr", FALSE, <<P("S0")>>)>>)
CaptiveGroup == C("captivegroup", <<Grouped(R("r1", SC, 0, "a", "ctorerr", FALSE, <<>>)),
                                    R("r2", TR, 1, "a", "ctorerr", TRUE, <<PG("S0")>>)>>)
MissingDep == C("missing", <<R("r1", SC, 0, "a", "ctorerr", FALSE, <<P("S1")>>)>>)

\* function-value kinds that share code: two registrations of the same slot type (unkeyed / named) and
\* one of another type, all realised as closures of one factory / method values / generic
\* instantiations / reflect.MakeFunc functions
KindCfg(kd) == C("kind-" \o kd, <<Kinded(R("r1", SG, 0, "a", "ctorerr", FALSE, <<>>), kd),
                                   Kinded(Named(R("r2", SC, 0, "b", "ctorerr", FALSE, <<>>)), kd),
                                   Kinded(R("r3", TR, 1, "a", "ctorerr", FALSE, <<>>), kd),
                                   Kinded(Named(R("r4", SG, 1, "b", "ctorerr", FALSE, <<>>)), kd)>>)
KindCfgs == {KindCfg(kd) : kd \in {"closure", "method", "generic", "makefunc"}}
\* the SAME function literal registered twice under different names and lifetimes, both depending on a scoped
\* service: the analysis (and its dependency list) is shared, the lifetimes are not
KindCaptive == C("kindcaptive", <<R("r0", SC, 2, "a", "ctorerr", FALSE, <<>>),
                                  Kinded(R("r1", SC, 1, "a", "ctorerr", FALSE, <<P("S2")>>), "closure"),
                                  Kinded(Named(R("r2", SG, 1, "b", "ctorerr", FALSE, <<P("S2")>>)), "closure")>>)
KindCaptiveTr == C("kindcaptivetr", <<R("r0", SC, 2, "a", "ctorerr", FALSE, <<>>),
                                      Kinded(R("r1", SC, 1, "a", "ctorerr", FALSE, <<P("S2")>>), "closure"),
                                      Kinded(Named(R("r2", TR, 1, "b", "ctorerr", FALSE, <<P("S2")>>)), "closure")>>)
\* a required NAMED field of a built-in type: nobody can provide it (reserved types cannot be registered)
KeyedBuiltinDep == C("keyedbuiltindep", <<R("r1", SG, 0, "a", "ctorerr", FALSE, <<>>),
                                          R("r2", SC, 1, "a", "ctorerr", TRUE, <<PBK("ctx")>>)>>)
KeyedBuiltinDepTr == C("keyedbuiltindeptr", <<R("r1", TR, 1, "a", "ctorerr", TRUE, <<PBK("ctx")>>)>>)
\* a singleton whose constructor uses the Scope it is handed (opens a child scope, asks it for every singleton type)
\* while Build is still running, next to singletons that take the built-ins themselves
Reentrant == C("reentrant", <<Kinded(R("r1", SG, 0, "a", "ctorerr", FALSE, B3), "reentrant"),
                              R("r2", SG, 1, "a", "ctorerr", FALSE, B3),
                              R("r3", SG, 2, "a", "ctorerr", TRUE, B3),
                              R("r4", SC, 3, "a", "ctorerr", FALSE, <<P("S1")>>)>>)
CfgKinds == KindCfgs \cup {Reentrant}

\* result object with a group field; multiple returns combined with Name / Group
OutKG == C("outkg", <<Two(R("r1", SC, 0, "a", "outkg", FALSE, <<>>), 1),
                      R("r2", SC, 2, "a", "ctorerr", TRUE, <<P("S0"), PG("S1")>>)>>)
OutKGSing == C("outkgsing", <<Two(R("r1", SG, 0, "a", "outkg", FALSE, <<>>), 1),
                              R("r2", TR, 2, "a", "ctorerr", TRUE, <<P("S0"), PG("S1")>>)>>)
OutKGTr == C("outkgtr", <<Two(R("r1", TR, 0, "a", "outkg", FALSE, <<>>), 1)>>)
MultiNamed == C("multinamed", <<Named(Two(R("r1", SG, 0, "a", "multi", FALSE, <<>>), 1)),
                                R("r2", SC, 2, "a", "ctorerr", TRUE, <<PK("S0"), P("S1")>>)>>)
MultiNamedSc == C("multinamedsc", <<Named(Two(R("r1", SC, 0, "a", "multierr", FALSE, <<>>), 1))>>)
MultiGrouped == C("multigrouped", <<Grouped(Two(R("r1", SG, 0, "a", "multi", FALSE, <<>>), 1)),
                                    R("r2", SC, 2, "a", "ctorerr", TRUE, <<PG("S0"), PG("S1")>>)>>)
MultiGroupedSc == C("multigroupedsc", <<Grouped(Two(R("r1", SC, 0, "a", "multierr", FALSE, <<>>), 1))>>)
\* result objects whose two fields have the SAME type: unkeyed + group member, unkeyed + named
OutKGSame == C("outkgsame", <<Two(R("r1", SC, 1, "a", "outkg", FALSE, <<>>), 1),
                              R("r2", SC, 2, "a", "ctorerr", TRUE, <<P("S1"), PG("S1")>>)>>)
OutKGSameTr == C("outkgsametr", <<Two(R("r1", TR, 1, "a", "outkg", FALSE, <<>>), 1),
                                  R("r2", TR, 2, "a", "ctorerr", TRUE, <<P("S1"), PG("S1")>>)>>)
OutKGSameSing == C("outkgsamesing", <<Two(R("r1", SG, 1, "a", "outkg", FALSE, <<>>), 1),
                                      R("r2", SG, 2, "a", "ctorerr", TRUE, <<P("S1"), PG("S1")>>)>>)
OutKNSame == C("outknsame", <<Two(R("r1", SC, 1, "a", "outkn", FALSE, <<>>), 1),
                              R("r2", TR, 2, "a", "ctorerr", TRUE, <<P("S1"), PK("S1")>>)>>)
OutKNSameTr == C("outknsametr", <<Two(R("r1", TR, 1, "a", "outkn", FALSE, <<>>), 1),
                                  R("r2", TR, 2, "a", "ctorerr", TRUE, <<P("S1"), PK("S1")>>)>>)
CfgForms == {OutKG, OutKGSing, OutKGTr, MultiNamed, MultiNamedSc, MultiGrouped, MultiGroupedSc,
             OutKGSame, OutKGSameTr, OutKGSameSing, OutKNSame, OutKNSameTr}

\* more shapes suggested by independent seeded changes: a transient with two aliases; a singleton with an optional
\* singleton dependency that has dependencies itself; a singleton consuming a group with a transient member that needs
\* a singleton; groups whose members have different lifetimes; aliases combined with groups of different sizes
Alias2Transient == C("alias2tr", <<As(R("r1", TR, 0, "a", "ctorerr", FALSE, <<>>), <<"I0", "I1">>),
                                   R("r2", SC, 1, "a", "ctorerr", FALSE, <<>>)>>)
OptionalSing == C("optionalsing", <<R("r1", SG, 0, "a", "ctorerr", TRUE, <<PO("S1")>>),
                                    R("r2", SG, 1, "a", "ctorerr", FALSE, <<P("S2")>>),
                                    R("r3", SG, 2, "a", "ctorerr", FALSE, <<>>)>>)
GroupTransDeps == C("grouptransdeps", <<R("r1", SG, 0, "a", "ctorerr", TRUE, <<PG("S1")>>),
                                        Grouped(R("r2", TR, 1, "a", "ctorerr", FALSE, <<P("S2")>>)),
                                        R("r3", SG, 2, "a", "ctorerr", FALSE, <<P("S3")>>),
                                        R("r4", SG, 3, "a", "ctorerr", FALSE, <<>>)>>)
\* a group with a transient and a singleton member consumed by TWO singletons and by a scoped service (each consumer
\* gets transient members of its own, at Build and afterwards)
GroupTransTwoSing == C("grouptranstwosing", <<Grouped(R("r1", TR, 1, "a", "ctorerr", FALSE, <<>>)),
                                              Grouped(R("r2", SG, 1, "b", "ctorerr", FALSE, <<>>)),
                                              R("r3", SG, 0, "a", "ctorerr", TRUE, <<PG("S1")>>),
                                              R("r4", SG, 2, "a", "ctorerr", TRUE, <<PG("S1")>>),
                                              R("r5", SC, 3, "a", "ctorerr", TRUE, <<PG("S1")>>)>>)
GroupMixedOK == C("groupmixedok", <<Grouped(R("r1", SC, 1, "a", "ctorerr", FALSE, <<>>)),
                                    Grouped(R("r2", TR, 1, "b", "ctorerr", FALSE, <<>>)),
                                    R("r3", SC, 0, "a", "ctorerr", TRUE, <<PG("S1")>>)>>)
GroupMixedCaptive == C("groupmixedcaptive", <<Grouped(R("r1", SC, 1, "a", "ctorerr", FALSE, <<>>)),
                                              Grouped(R("r2", TR, 1, "b", "ctorerr", FALSE, <<>>)),
                                              R("r3", SG, 0, "a", "ctorerr", TRUE, <<PG("S1")>>)>>)
GroupMixedCaptive2 == C("groupmixedcaptive2", <<Grouped(R("r2", TR, 1, "b", "ctorerr", FALSE, <<>>)),
                                                Grouped(R("r1", SC, 1, "a", "ctorerr", FALSE, <<>>)),
                                                R("r3", TR, 0, "a", "ctorerr", TRUE, <<PG("S1")>>)>>)
AliasGroupAsym == C("aliasgroupasym", <<Grouped(As(R("r1", SG, 1, "a", "ctorerr", FALSE, <<>>), <<"I0">>)),
                                        Grouped(As(R("r2", SG, 0, "a", "ctorerr", FALSE, <<>>), <<"I0", "I1">>)),
                                        Grouped(As(R("r3", SC, 2, "a", "ctorerr", FALSE, <<>>), <<"I1", "I0">>))>>)
CycleOptional == C("cycleoptional", <<R("r1", SC, 0, "a", "ctorerr", TRUE, <<PO("S1")>>),
                                      R("r2", SC, 1, "a", "ctorerr", FALSE, <<P("S0")>>)>>)
MissingKeyed == C("missingkeyed", <<R("r1", SG, 1, "a", "ctorerr", FALSE, <<>>),
                                    R("r2", SC, 0, "a", "ctorerr", TRUE, <<P("S1"), PK("S1")>>)>>)
\* outputs removed from the collection again before Build (collection edits feed the container model)
Rmd(r, outs) == r @@ [rm |-> outs]
\* scoped (S0,S1) whose second output was removed and re-registered by another scoped constructor; consumer of both
MultiRmReadd == C("multirmreadd", <<Rmd(Two(R("r1", SC, 0, "a", "multierr", FALSE, <<>>), 1), <<2>>),
                                    R("r2", SC, 1, "a", "ctorerr", FALSE, <<>>),
                                    R("r3", SC, 2, "a", "ctorerr", FALSE, <<P("S0"), P("S1")>>)>>)
\* the FIRST output removed: the remaining sibling still stands for the constructor (singleton, transient consumer)
MultiRmFirst == C("multirmfirst", <<Rmd(Two(R("r1", SG, 0, "a", "multi", FALSE, <<>>), 1), <<1>>),
                                    R("r2", TR, 2, "a", "ctorerr", FALSE, <<P("S1")>>)>>)
OutKNRmFirst == C("outknrmfirst", <<Rmd(Two(R("r1", SC, 0, "a", "outkn", FALSE, <<>>), 1), <<1>>),
                                    R("r2", TR, 0, "b", "ctorerr", FALSE, <<>>),
                                    R("r3", SC, 2, "a", "ctorerr", TRUE, <<P("S0"), PK("S1")>>)>>)
\* every output removed: the registration is dead, its missing dependency does not count
MultiRmAll == C("multirmall", <<Rmd(Two(R("r1", SG, 0, "a", "multi", FALSE, <<P("S3")>>), 1), <<1, 2>>),
                                R("r2", SC, 2, "a", "ctorerr", FALSE, <<>>)>>)
\* defects that must still be found through the remaining sibling after the first output was removed
RmFirstCaptive == C("rmfirstcaptive", <<R("r0", SC, 2, "a", "ctorerr", FALSE, <<>>),
                                        Rmd(Two(R("r1", SG, 0, "a", "multi", FALSE, <<P("S2")>>), 1), <<1>>)>>)
RmFirstCaptiveOut == C("rmfirstcaptiveout", <<R("r0", SC, 2, "a", "ctorerr", FALSE, <<>>),
                                              Rmd(Two(R("r1", TR, 0, "a", "outkn", FALSE, <<P("S2")>>), 1), <<1>>)>>)
RmFirstMissing == C("rmfirstmissing", <<Rmd(Two(R("r1", SC, 0, "a", "multierr", FALSE, <<P("S3")>>), 1), <<1>>)>>)
RmFirstMissingOut == C("rmfirstmissingout", <<Rmd(Two(R("r1", TR, 0, "a", "outkn", FALSE, <<P("S3")>>), 1), <<1>>)>>)
RmFirstCycle == C("rmfirstcycle", <<Rmd(Two(R("r1", SC, 0, "a", "multierr", FALSE, <<P("S2")>>), 1), <<1>>),
                                    R("r2", SC, 2, "a", "ctorerr", FALSE, <<P("S1")>>)>>)
\* initialization functions registered with a name: resolvable by key, removable by key
InitNamed == C("initnamed", <<R("r1", SG, 0, "a", "ctorerr", FALSE, <<>>),
                              Named(R("r2", SC, 0, "a", "init", FALSE, <<P("S0")>>)),
                              R("r3", SC, 1, "a", "ctorerr", FALSE, <<P("S0")>>)>>)
InitNamedRm == C("initnamedrm", <<R("r1", SG, 0, "a", "ctorerr", FALSE, <<>>),
                                  Rmd(Named(R("r2", SC, 0, "a", "init", FALSE, <<P("S0")>>)), <<1>>),
                                  R("r3", SC, 0, "b", "initerr", FALSE, <<>>),
                                  R("r4", SC, 1, "a", "ctorerr", FALSE, <<P("S0")>>)>>)
\* first output of a singleton pair removed; the pair needs a singleton that has a dependency of its own (ordering)
MultiRmFirstDeep == C("multirmfirstdeep", <<R("r1", SG, 2, "a", "ctorerr", FALSE, <<>>),
                                            R("r2", SG, 3, "a", "ctorerr", FALSE, <<P("S2")>>),
                                            Rmd(Two(R("r3", SG, 0, "a", "multi", FALSE, <<P("S3")>>), 1), <<1>>),
                                            R("r4", SC, 0, "b", "ctorerr", FALSE, <<P("S1")>>)>>)
AliasRmFirstDeep == C("aliasrmfirstdeep", <<R("r1", SG, 2, "a", "ctorerr", FALSE, <<>>),
                                            R("r2", SG, 3, "a", "ctorerr", FALSE, <<P("S2")>>),
                                            Rmd(As(R("r3", SG, 0, "a", "ctorerr", FALSE, <<P("S3")>>), <<"I0", "I1">>), <<1>>),
                                            R("r4", SC, 1, "a", "ctorerr", FALSE, <<P("I1")>>)>>)
\* an initialization function registered as TRANSIENT: never run by the container on its own, runs per keyed request
InitTransient == C("inittransient", <<R("r1", SG, 0, "a", "ctorerr", FALSE, <<>>),
                                      Named(R("r2", TR, 0, "a", "init", FALSE, <<P("S0")>>)),
                                      R("r3", SC, 1, "a", "ctorerr", FALSE, <<P("S0")>>)>>)
InitTransientMissing == C("inittransientmissing", <<Named(R("r1", TR, 0, "a", "init", FALSE, <<P("S3")>>)),
                                                    R("r2", SC, 1, "a", "ctorerr", FALSE, <<>>)>>)
InitSingMissing == C("initsingmissing", <<R("r1", SG, 0, "a", "initerr", FALSE, <<P("S3")>>),
                                          R("r2", SC, 1, "a", "ctorerr", FALSE, <<>>)>>)
\* the removed output of a SINGLETON pair re-registered with another lifetime (the mocking pattern)
MultiRmReaddTr == C("multirmreaddtr", <<Rmd(Two(R("r1", SG, 0, "a", "multi", FALSE, <<>>), 1), <<2>>),
                                        R("r2", TR, 1, "a", "ctorerr", FALSE, <<>>),
                                        R("r3", SC, 2, "a", "ctorerr", FALSE, <<P("S0"), P("S1")>>)>>)
MultiRmReaddSg == C("multirmreaddsg", <<Rmd(Two(R("r1", SG, 0, "a", "multi", FALSE, <<>>), 1), <<2>>),
                                        R("r2", SG, 1, "a", "ctorerr", FALSE, <<>>),
                                        R("r3", SG, 2, "a", "ctorerr", FALSE, <<P("S0"), P("S1")>>),
                                        R("r4", SC, 3, "a", "ctorerr", FALSE, <<P("S1")>>)>>)
AliasRmReaddSg == C("aliasrmreaddsg", <<Rmd(As(R("r1", SG, 0, "a", "ctorerr", FALSE, <<>>), <<"I0", "I1">>), <<2>>),
                                        As(R("r2", SG, 1, "a", "ctorerr", FALSE, <<>>), <<"I1">>),
                                        R("r3", SC, 2, "a", "ctorerr", TRUE, <<P("I0"), P("I1")>>)>>)
MultiRmReaddSc == C("multirmreaddsc", <<Rmd(Two(R("r1", SG, 0, "a", "multi", FALSE, <<>>), 1), <<2>>),
                                        R("r2", SC, 1, "a", "ctorerr", FALSE, <<>>),
                                        R("r3", TR, 2, "a", "ctorerr", FALSE, <<P("S0")>>)>>)
AliasRmReaddTr == C("aliasrmreaddtr", <<Rmd(As(R("r1", SG, 0, "a", "ctorerr", FALSE, <<>>), <<"I0", "I1">>), <<2>>),
                                        As(R("r2", TR, 1, "a", "ctorerr", FALSE, <<>>), <<"I1">>),
                                        R("r3", SC, 2, "a", "ctorerr", TRUE, <<P("I0"), P("I1")>>)>>)
CfgRemoved == {InitNamed, InitNamedRm, InitTransient, MultiRmReaddTr, MultiRmReaddSc, MultiRmReaddSg, AliasRmReaddSg, AliasRmReaddTr, MultiRmFirstDeep, AliasRmFirstDeep, MultiRmReadd, MultiRmFirst, OutKNRmFirst, MultiRmAll}
CfgRemovedDefective == {RmFirstCaptive, RmFirstCaptiveOut, RmFirstMissing, RmFirstMissingOut, RmFirstCycle}

\* the same transient requested by two FIELDS of one parameter object (plain, named, group), by a scoped consumer,
\* by a singleton at Build and by another transient
DiamondPO == C("diamondpo", <<R("r1", TR, 2, "a", "ctorerr", FALSE, <<>>),
                              R("r2", SC, 1, "a", "ctorerr", TRUE, <<P("S2"), P("S2")>>),
                              R("r3", SG, 0, "a", "ctorerr", TRUE, <<P("S2"), P("S2")>>),
                              R("r4", TR, 3, "a", "ctorerr", TRUE, <<P("S2"), P("S2")>>)>>)
DiamondPOKG == C("diamondpokg", <<Named(R("r1", TR, 2, "a", "ctorerr", FALSE, <<>>)),
                                  Grouped(R("r2", TR, 3, "a", "ctorerr", FALSE, <<>>)),
                                  Grouped(R("r3", TR, 3, "b", "ctorerr", FALSE, <<>>)),
                                  R("r4", SC, 1, "a", "ctorerr", TRUE, <<PK("S2"), PK("S2")>>),
                                  R("r5", SC, 0, "a", "ctorerr", TRUE, <<PG("S3"), PG("S3")>>)>>)

\* a constructor naming the same dependency twice next to a deeper one (repeated edges in the graph)
DupDeps == C("dupdeps", <<R("r1", SG, 1, "a", "ctorerr", FALSE, <<>>),
                          R("r2", SG, 2, "a", "ctorerr", FALSE, <<P("S1")>>),
                          R("r3", SG, 3, "a", "ctorerr", FALSE, <<P("S2")>>),
                          R("r4", SG, 0, "a", "ctorerr", FALSE, <<P("S1"), P("S1"), P("S3")>>)>>)

\* dependencies declared as EMBEDDED fields of a parameter object (wired like named ones; count for cycles)
Embedded == C("embedded", <<R("r1", SG, 0, "a", "ctorerr", FALSE, <<>>),
                            R("r2", TR, 1, "a", "ctorerr", FALSE, <<>>),
                            R("r3", SC, 2, "a", "ctorerr", TRUE, <<PE("S0"), PE("S1")>>),
                            R("r4", SG, 3, "a", "ctorerr", TRUE, <<P("S0"), PE("S1")>>)>>)
CycleEmbedded == C("cycleembedded", <<R("r1", SC, 0, "a", "ctorerr", TRUE, <<PE("S1")>>),
                                      R("r2", SC, 1, "a", "ctorerr", FALSE, <<P("S0")>>)>>)
\* a scoped service behind two interfaces; consumers depending on the SECOND interface
AliasDeps == C("aliasdeps", <<As(R("r1", SC, 0, "a", "ctorerr", FALSE, <<>>), <<"I0", "I1">>),
                              R("r2", SC, 1, "a", "ctorerr", FALSE, <<P("I1")>>),
                              R("r3", SC, 2, "a", "ctorerr", TRUE, <<P("I0"), P("I1")>>)>>)
CaptiveAlias2 == C("captivealias2", <<As(R("r1", SC, 0, "a", "ctorerr", FALSE, <<>>), <<"I0", "I1">>),
                                      R("r2", SG, 1, "a", "ctorerr", FALSE, <<P("I1")>>)>>)
CaptiveAlias2Tr == C("captivealias2tr", <<As(R("r1", SC, 0, "a", "ctorerr", FALSE, <<>>), <<"I0", "I1">>),
                                          R("r2", TR, 1, "a", "ctorerr", TRUE, <<P("I1")>>)>>)
CycleAlias == C("cyclealias", <<As(R("r1", SC, 0, "a", "ctorerr", FALSE, <<P("S1")>>), <<"I0", "I1">>),
                                R("r2", SC, 1, "a", "ctorerr", FALSE, <<P("I1")>>)>>)

\* a service whose constructor is declared to return the interface type (it can return an untyped nil)
Iface == C("iface", <<R("r1", SC, 0, "a", "ifacerr", FALSE, <<>>),
                      R("r2", SC, 1, "a", "ctorerr", FALSE, <<P("I0")>>),
                      R("r3", SG, 2, "a", "ctorerr", FALSE, <<>>)>>)
IfaceSing == C("ifacesing", <<R("r1", SG, 0, "a", "ifacerr", FALSE, <<>>),
                              R("r2", TR, 1, "a", "ctorerr", FALSE, <<P("I0")>>)>>)

CfgMore == CfgPtr \cup {GroupTransTwoSing, Iface, IfaceSing, Embedded, AliasDeps, DupDeps, DiamondPO, DiamondPOKG, Alias2Transient, OptionalSing, GroupTransDeps, GroupMixedOK, AliasGroupAsym}

Plain == {Basic, Chain, Keyed, Group, GroupScoped, GroupDeps, Multi, MultiTr, OutKN, OutKNSing, Alias1, Alias2,
          Alias2Scoped, Diamond2, Optional, Inits, InitSing, Builtin, InstVal, InstVals, InstValsV} \cup CfgForms \cup CfgMore \cup CfgRemoved
Defective == {Cycle2, CycleGroup, Captive, CaptiveGroup, MissingDep, GroupMixedCaptive, GroupMixedCaptive2, CycleOptional, MissingKeyed}
             \cup CfgRemovedDefective \cup {CycleEmbedded, CaptiveAlias2, CaptiveAlias2Tr, CycleAlias, InitTransientMissing, InitSingMissing, KindCaptive, KindCaptiveTr, KeyedBuiltinDep, KeyedBuiltinDepTr}

Hows == {"err", "panic"}
\* a scripted error needs a constructor shape that can return one
RegOfC(c, id) == c.regs[CHOOSE i \in DOMAIN c.regs : c.regs[i].id = id]
CanErr(r) == r.shape \in {"ctorerr", "multierr", "initerr", "outkn", "outkg", "ifacerr"}
Sane(cs) == {c \in cs : \A i \in DOMAIN c.faults : c.faults[i].how = "err" => CanErr(RegOfC(c, c.faults[i].reg))}
FaultyAll == {WithFault(Basic, r, 1, h) : r \in {"r1", "r2", "r3"}, h \in Hows}
     \cup {WithFault(Basic, "r3", 2, h) : h \in Hows}
     \cup {WithFault(Chain, r, 1, h) : r \in {"r1", "r2", "r3", "r4"}, h \in Hows}
     \cup {WithFault(Group, r, at, "err") : r \in {"r1", "r2", "r3"}, at \in {1, 2}}
     \cup {WithFault(Multi, r, 1, "err") : r \in {"r1", "r2"}}
     \cup {WithFault(Inits, r, at, h) : r \in {"r2", "r3", "r4"}, at \in {1, 2}, h \in Hows}
     \cup {WithFault(Diamond2, "r1", at, "err") : at \in {1, 2, 3}}
     \cup {WithFault(Optional, "r2", at, "err") : at \in {1, 2}}
\* three singletons in a chain + a scoped consumer; a constructor cancels the context given to BuildWithContext
SingChain == C("singchain", <<R("r1", SG, 0, "a", "ctorerr", FALSE, <<>>),
                              R("r2", SG, 1, "a", "ctorerr", FALSE, <<P("S0")>>),
                              R("r3", SG, 2, "a", "ctorerr", FALSE, <<P("S1")>>),
                              R("r4", SC, 3, "a", "ctorerr", FALSE, <<P("S2")>>)>>)
CancelFaulty == {WithFault(SingChain, r, 1, "cancel") : r \in {"r1", "r2", "r3"}}
           \cup {WithFault(Multi, "r1", 1, "cancel"), WithFault(GroupDeps, "r1", 1, "cancel"), WithFault(GroupDeps, "r3", 1, "cancel")}
\* a singleton that consumed a disposable TRANSIENT, followed by a singleton that fails: the failed Build must close
\* the transient too (it belongs to the root scope)
TransThenFail == C("transthenfail", <<R("r1", TR, 2, "a", "ctorerr", FALSE, <<>>),
                                      R("r2", SG, 0, "a", "ctorerr", FALSE, <<P("S2")>>),
                                      R("r3", SG, 1, "a", "ctorerr", FALSE, <<P("S0")>>),
                                      R("r4", SC, 3, "a", "ctorerr", FALSE, <<P("S1")>>)>>)
TransFaulty == {WithFault(TransThenFail, "r3", 1, h) : h \in {"err", "panic", "cancel"}}
          \cup {WithFault(GroupTransDeps, "r1", 1, h) : h \in {"err", "panic"}}
\* a singleton that is handed the provider, then a failure later in the same Build
BuiltinFaulty == {WithFault(Builtin, "r4", 1, h) : h \in {"err", "panic"}}
\* an initialization function that was handed the new scope (and its context) and fails at a scope creation
BuiltinCreateFaulty == {WithFault(Builtin, "r4", at, h) : at \in {2, 3}, h \in {"err", "panic"}}
IfaceFaulty == {WithFault(Iface, "r1", at, h) : at \in {1, 2}, h \in {"nil", "err"}} \cup {WithFault(IfaceSing, "r1", 1, "nil")}
Faulty == Sane(FaultyAll) \cup CancelFaulty \cup IfaceFaulty \cup Sane(TransFaulty) \cup Sane(BuiltinFaulty) \cup Sane(BuiltinCreateFaulty)
NilFaulty == {WithFault(Basic, r, 1, "nil") : r \in {"r1", "r2", "r3"}}

\* a constructor failure AND a failing Close of something the failed call had already created: the clean-up of a
\* failed Build / a failed scope creation meets a disposal error - the call still reports the constructor's failure
\* (classifiable, cause reachable), everything is still closed
AlsoCloseErr(c, regs) == [c EXCEPT !.cid = @ \o "+ce" \o regs[1], !.closeerr = regs]
FaultCloseErrs == {AlsoCloseErr(WithFault(SingChain, r, 1, h), ce) : r \in {"r2", "r3"}, h \in Hows, ce \in {<<"r1">>, <<"r1", "r2">>}}
             \cup {AlsoCloseErr(WithFault(Inits, "r4", at, h), <<"r3">>) : at \in {1, 2}, h \in Hows}
             \cup {AlsoCloseErr(WithFault(TransThenFail, "r3", 1, h), <<"r1">>) : h \in Hows}
             \cup {AlsoCloseErr(WithFault(Basic, "r2", 1, h), <<"r3">>) : h \in Hows}

CloseErrs == {WithCloseErr(Basic, ce) : ce \in {<<"r1">>, <<"r2">>, <<"r3">>, <<"r1", "r2">>, <<"r2", "r3">>, <<"r1", "r2", "r3">>}}
        \cup {WithCloseErr(Chain, ce) : ce \in {<<"r1">>, <<"r3">>, <<"r1", "r2", "r3">>}}
        \cup {WithCloseErr(Multi, ce) : ce \in {<<"r1">>, <<"r2">>}}

Tree3 == [s1 |-> "prov", s2 |-> "s1", s3 |-> "prov"]
\* d2 is nested in s1 with a context derived from s1's context (own cancel function); d3 nested in d2, no context
Tree2d == [s1 |-> "prov", d2 |-> "s1"]
Tree3d == [s1 |-> "prov", d2 |-> "s1", s3 |-> "d2"]
Tree2 == [s1 |-> "prov", s2 |-> "s1"]
Tree1 == [s1 |-> "prov"]
\* two sibling scopes under one parent scope (closed in either order while the parent lives), and a third on the provider
TreeSib == [s1 |-> "prov", s2 |-> "s1", s3 |-> "s1", s4 |-> "prov"]
\* for long random walks: eight scope names (a name is used once), nested ones with and without a derived context
Tree8 == [s1 |-> "prov", s2 |-> "s1", s3 |-> "prov", d2 |-> "s3", s4 |-> "prov", s5 |-> "s4", s6 |-> "s5", s7 |-> "prov"]

One(c) == {c}
CfgBasic == {Basic}
CfgGTTS == {GroupTransTwoSing}
CfgBuiltinFaults == Sane(BuiltinFaulty)
CfgRemovedAll == CfgRemoved \cup CfgRemovedDefective
CfgRelease == {Basic, Chain, Inits, Multi, Diamond2}
CfgBuiltin == {Builtin, Reentrant}
CfgAll == Plain \cup Defective
CfgFaults == Faulty
CfgNil == NilFaulty
CfgIface == IfaceFaulty
CfgCloseErrs == CloseErrs
\* a transient behind OPTIONAL parameter-object fields that fails at its n-th invocation: the field stays zero in that
\* construction (and only in that one), earlier and later consumers get instances of their own
CfgOptFaults == Sane({WithFault(Optional, "r2", at, h) : at \in {1, 2, 3}, h \in Hows})
CfgFaultCloseErrs == Sane(FaultCloseErrs)
CfgWalk == Plain \cup Faulty \cup CloseErrs \cup CfgOptFaults \cup CfgFaultCloseErrs
=============================================================================
