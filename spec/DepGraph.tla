------------------------------ MODULE DepGraph ------------------------------
(***************************************************************************)
(* Reference model of godi's dependency-graph component                    *)
(* (internal/graph): a plain digraph over a pool of node identities that   *)
(* receives add (immediate / deferred+Detect), replace, remove and clear,  *)
(* and answers every query of the component.                               *)
(*                                                                         *)
(* The state is ONE record g so that the same pure operators (GApply, the  *)
(* guards) are used by the exhaustive design model (DepGraphMC) and by the *)
(* trace specification (DepGraphTrace) that validates executions of the    *)
(* real code.                                                              *)
(***************************************************************************)
EXTENDS Naturals, Sequences, FiniteSets, TLC

CONSTANT Nodes          \* pool of node identities (strings "n0", "n1", ...)

Range(s) == {s[i] : i \in DOMAIN s}

EmptyGraph == [present |-> {}, prov |-> {}, deps |-> [n \in Nodes |-> <<>>], pending |-> FALSE]

GraphOK(g) ==
    /\ g.present \subseteq Nodes
    /\ g.prov \subseteq g.present
    /\ \A n \in Nodes : Range(g.deps[n]) \subseteq g.present
    /\ \A n \in Nodes \ g.prov : g.deps[n] = <<>>

Succ(g, n) == Range(g.deps[n])
Pred(g, n) == {m \in g.present : n \in Succ(g, m)}

RECURSIVE ReachFrom(_, _, _)
ReachFrom(g, frontier, seen) ==
    IF frontier = {} THEN seen
    ELSE LET nxt == (UNION {Succ(g, x) : x \in frontier}) \ seen
         IN  ReachFrom(g, nxt, seen \cup nxt)

\* nodes reachable from n by at least one edge
Reach(g, n) == ReachFrom(g, Succ(g, n), Succ(g, n))

OnCycle(g, n) == n \in Reach(g, n)
Cyclic(g)  == \E n \in g.present : OnCycle(g, n)
Acyclic(g) == ~Cyclic(g)

Roots(g)  == {n \in g.present : Pred(g, n) = {}}      \* no dependents
Leaves(g) == {n \in g.present : g.deps[n] = <<>>}     \* no dependencies

Pos(seq, x) == CHOOSE i \in DOMAIN seq : seq[i] = x

IsTopo(g, seq) ==
    /\ Len(seq) = Cardinality(g.present)
    /\ Range(seq) = g.present
    /\ \A i \in DOMAIN seq : \A d \in Succ(g, seq[i]) : Pos(seq, d) < i

\* a reported cycle path: consecutive pairs (and the closing pair) are edges.
\* Both renderings [a,b] and [a,b,a] are accepted.
IsCycle(g, path) ==
    /\ Len(path) >= 1
    /\ LET p == IF Len(path) > 1 /\ path[Len(path)] = path[1]
                THEN SubSeq(path, 1, Len(path) - 1) ELSE path
           k == Len(p)
       IN  /\ Range(p) \subseteq g.present
           /\ \A i \in 1..k : p[(i % k) + 1] \in Succ(g, p[i])

RECURSIVE Depth(_, _)
Depth(g, n) ==   \* only used on acyclic graphs
    IF g.deps[n] = <<>> THEN 0
    ELSE LET ds == {Depth(g, d) : d \in Succ(g, n)}
         IN  1 + (CHOOSE m \in ds : \A k \in ds : k <= m)

(***************************************************************************)
(* Mutations.  WithAdd is the graph after n's provider/dependency list is  *)
(* (re)placed.  An immediate add is REJECTED - and the graph left exactly  *)
(* as it was - iff afterwards a cycle would be reachable from n.           *)
(***************************************************************************)
WithAdd(g, n, ds) ==
    [g EXCEPT !.present = @ \cup {n} \cup Range(ds),
              !.prov    = @ \cup {n},
              !.deps    = [@ EXCEPT ![n] = ds]]

CycleReachableFrom(g, n) == OnCycle(g, n) \/ \E m \in Reach(g, n) : OnCycle(g, m)

AddRejected(g, n, ds) == CycleReachableFrom(WithAdd(g, n, ds), n)

GAddImmediate(g, n, ds) ==
    IF AddRejected(g, n, ds) THEN [g EXCEPT !.pending = FALSE]
    ELSE [WithAdd(g, n, ds) EXCEPT !.pending = FALSE]

GAddDeferred(g, n, ds) == [WithAdd(g, n, ds) EXCEPT !.pending = TRUE]

GDetect(g) == [g EXCEPT !.pending = FALSE]

DropFrom(seq, n) == SelectSeq(seq, LAMBDA x : x # n)

GRemove(g, n) ==
    IF n \notin g.present THEN g
    ELSE [present |-> g.present \ {n},
          prov    |-> g.prov \ {n},
          deps    |-> [m \in Nodes |-> IF m = n THEN <<>> ELSE DropFrom(g.deps[m], n)],
          pending |-> FALSE]

GApply(g, e) ==
    CASE e.ev = "add"    -> GAddImmediate(g, e.n, e.ds)
      [] e.ev = "addd"   -> GAddDeferred(g, e.n, e.ds)
      [] e.ev = "detect" -> GDetect(g)
      [] e.ev = "remove" -> GRemove(g, e.n)
      [] e.ev = "clear"  -> EmptyGraph
      [] OTHER           -> g         \* obs and unknown events do not change the graph

(***************************************************************************)
(* Guards over logged events.  Each guard: name, property tags, verdict.   *)
(* Evaluated in the state BEFORE the event is applied (for obs: the state  *)
(* the observation was taken in).                                          *)
(***************************************************************************)
G(name, tags, ok) == [name |-> name, tags |-> tags, ok |-> ok]

SetOf(seq) == Range(seq)

GuardsAdd(g, e) ==
    { G("add_verdict", {"C19"}, (e.res = "cycle") <=> AddRejected(g, e.n, e.ds)) }

GuardsDetect(g, e) ==
    { G("detect_verdict", {"C05", "C19"}, (e.res = "cycle") <=> Cyclic(g)),
      G("detect_path", {"C05"}, (e.res = "cycle" /\ Cyclic(g)) => IsCycle(g, e.path)) }

GuardsObs(g, e) ==
    { G("size", {"C19"}, e.size = Cardinality(g.present)),
      G("has", {"C19"}, SetOf(e.has) = g.present),
      G("deps", {"C19"}, \A n \in Nodes : SetOf(e.deps[n]) = Succ(g, n)),
      G("deps_count", {"C19"}, \A n \in Nodes : Len(e.deps[n]) = Len(g.deps[n])),
      G("dependents", {"C19"}, \A n \in Nodes : SetOf(e.dependents[n]) = (IF n \in g.present THEN Pred(g, n) ELSE {})),
      G("trans", {"C19"}, \A n \in Nodes : SetOf(e.trans[n]) \cup {n} = Reach(g, n) \cup {n}),
      G("roots", {"C19"}, SetOf(e.roots) = Roots(g)),
      G("leaves", {"C19"}, SetOf(e.leaves) = Leaves(g)),
      G("acyclic", {"C05", "C19"}, e.acyclic = Acyclic(g)),
      G("topo_verdict", {"C06", "C19"}, (e.topoerr = FALSE) <=> Acyclic(g)),
      G("topo_order", {"C06", "C19"}, (e.topoerr = FALSE /\ Acyclic(g)) => IsTopo(g, e.topo)),
      G("depths", {"C19"}, Acyclic(g) => \A n \in g.present : e.depths[n] = Depth(g, n)) }

Guards(g, e) ==
    CASE e.ev = "add"    -> GuardsAdd(g, e)
      [] e.ev = "detect" -> GuardsDetect(g, e)
      [] e.ev = "obs"    -> GuardsObs(g, e)
      [] OTHER           -> {}
=============================================================================
