------------------------------ MODULE Container ------------------------------
(***************************************************************************)
(* Sequential meaning of godi's container: registration sets, Build,       *)
(* scopes, resolution by lifetime, wiring, disposal.                        *)
(*                                                                         *)
(* The state is ONE record st and every event e (API call / return,        *)
(* constructor invocation, instance Close) is interpreted by the pure      *)
(* operators Apply(st, e) and Guards(st, e).  The same operators are used  *)
(*   - by the design model ContainerMC (reference semantics generate the   *)
(*     events; TLC checks that every guard and every state invariant       *)
(*     holds on all histories within the bounds), and                      *)
(*   - by the trace specification ContainerTrace (events recorded from the *)
(*     real code are applied; every property-tagged guard is evaluated).   *)
(***************************************************************************)
EXTENDS Naturals, Sequences, FiniteSets, TLC

Range(s) == {s[i] : i \in DOMAIN s}
NONE == "-"
SetToSeq(S) == CHOOSE f \in [1..Cardinality(S) -> S] : Range(f) = S
Max(S) == CHOOSE m \in S : \A k \in S : k <= m

(***************************************************************************)
(* 1. Registrations.  A registration r is one Add* call:                   *)
(*   id, life, slot, slot2, var, shape, po, name, group, as, params        *)
(* The identities it provides follow from the call's form (OutsOf).        *)
(***************************************************************************)
Ident(t, k, g) == [t |-> t, k |-> k, g |-> g]
SlotType(n) == IF n = 0 THEN "S0" ELSE IF n = 1 THEN "S1" ELSE IF n = 2 THEN "S2" ELSE "S3"
Builtins == {"ctx", "scope", "prov"}

OutsOf(r) ==
    IF r.shape \in {"ctor", "ctorerr", "inst"} THEN
        (IF r.as = <<>> THEN <<Ident(SlotType(r.slot), r.name, r.group)>>
         ELSE [i \in 1..Len(r.as) |-> Ident(r.as[i], r.name, r.group)])
    ELSE IF r.shape \in {"multi", "multierr"} THEN
        <<Ident(SlotType(r.slot), r.name, r.group), Ident(SlotType(r.slot2), NONE, r.group)>>
    ELSE IF r.shape = "instv" THEN      \* an instance value that is not a pointer (type W, registered by value)
        <<Ident("W", r.name, r.group)>>
    ELSE IF r.shape = "ifacerr" THEN    \* func(...) (I0, error): registered under the interface type itself
        <<Ident("I0", r.name, r.group)>>
    ELSE IF r.shape = "outkn" THEN      \* Out{A *Sa; B *Sb `name:"k"`}
        <<Ident(SlotType(r.slot), NONE, NONE), Ident(SlotType(r.slot2), "k", NONE)>>
    ELSE IF r.shape = "outkg" THEN      \* Out{A *Sa; B *Sb `group:"g"`}
        <<Ident(SlotType(r.slot), NONE, NONE), Ident(SlotType(r.slot2), NONE, "g")>>
    ELSE <<>>                           \* init / initerr: nothing is provided

IsInit(r) == r.shape \in {"init", "initerr"}
\* how many constructor invocations produce all outputs of r: one, whatever the number of outputs
NOuts(r) == Len(OutsOf(r))

RegIds(cfg) == {cfg.regs[i].id : i \in DOMAIN cfg.regs}

\* Outputs taken out of the collection again (Remove / RemoveKeyed right after the Add call, before Build).
\* A removed output provides nothing; a registration all of whose outputs were removed is dead: its
\* constructor never runs and its dependencies do not count.  The field is optional in the records.
Rm(r) == IF "rm" \in DOMAIN r THEN {r.rm[i] : i \in DOMAIN r.rm} ELSE {}     \* rm is a sequence of output indices
Reg(cfg, id) == cfg.regs[CHOOSE i \in DOMAIN cfg.regs : cfg.regs[i].id = id]
LifeOf(cfg, id) == Reg(cfg, id).life

\* all (reg index, out index) pairs in registration order
OutPairs(cfg) == {<<i, o>> : i \in DOMAIN cfg.regs, o \in 1..3} \cap
                 {<<i, o>> \in (DOMAIN cfg.regs) \X (1..3) : o <= NOuts(cfg.regs[i]) /\ o \notin Rm(cfg.regs[i])}
\* an initialization function (no result) is registered under the type "V" (struct{}) with its name as key; a NAMED
\* one can therefore be removed (rm = <<1>>) and resolved by key ("V", name)
LiveReg(cfg, id) == LET r == Reg(cfg, id) IN IF IsInit(r) THEN Rm(r) = {} ELSE \E o \in 1..NOuts(r) : o \notin Rm(r)
VoidRegs(cfg, k) == {id \in RegIds(cfg) : IsInit(Reg(cfg, id)) /\ Reg(cfg, id).name = k /\ k # NONE /\ Rm(Reg(cfg, id)) = {}}
LiveRegIds(cfg) == {id \in RegIds(cfg) : LiveReg(cfg, id)}

\* who provides the non-group identity (t,k): <<reg id, out index>> or <<>>
Providers(cfg, t, k) ==
    {<<cfg.regs[p[1]].id, p[2]>> : p \in {q \in OutPairs(cfg) :
        LET o == OutsOf(cfg.regs[q[1]])[q[2]] IN o.t = t /\ o.k = k /\ o.g = NONE}}
HasProvider(cfg, t, k) == Providers(cfg, t, k) # {}
ProviderOf(cfg, t, k) == CHOOSE p \in Providers(cfg, t, k) : TRUE

\* members of group (t,g) in registration order, as a sequence of <<reg id, out index>>
MemberPairs(cfg, t, g) == {q \in OutPairs(cfg) :
        LET o == OutsOf(cfg.regs[q[1]])[q[2]] IN o.t = t /\ o.g = g}
Before(p, q) == p[1] < q[1] \/ (p[1] = q[1] /\ p[2] < q[2])
RECURSIVE SortPairs(_)
SortPairs(S) == IF S = {} THEN <<>>
                ELSE LET m == CHOOSE p \in S : \A q \in S \ {p} : Before(p, q)
                     IN <<m>> \o SortPairs(S \ {m})
GroupMembers(cfg, t, g) ==
    LET s == SortPairs(MemberPairs(cfg, t, g))
    IN [i \in DOMAIN s |-> <<cfg.regs[s[i][1]].id, s[i][2]>>]

(***************************************************************************)
(* 2. The dependency relation among registrations (groups EXPANDED to all  *)
(* members), and the defect predicates Build must decide.                  *)
(***************************************************************************)
IsBuiltin(p) == p.b # NONE
IsGroupParam(p) == p.b = NONE /\ p.g # NONE

ParamTargets(cfg, p) ==        \* set of reg ids a parameter is wired to
    IF IsBuiltin(p) THEN {}
    ELSE IF IsGroupParam(p) THEN {m[1] : m \in Range(GroupMembers(cfg, p.t, p.g))}
    ELSE IF HasProvider(cfg, p.t, p.k) THEN {ProviderOf(cfg, p.t, p.k)[1]}
    ELSE {}

DepsOfReg(cfg, id) == UNION {ParamTargets(cfg, Reg(cfg, id).params[j]) : j \in DOMAIN Reg(cfg, id).params}

RECURSIVE ReachRegs(_, _, _)
ReachRegs(cfg, frontier, seen) ==
    IF frontier = {} THEN seen
    ELSE LET nxt == (UNION {DepsOfReg(cfg, x) : x \in frontier}) \ seen
         IN ReachRegs(cfg, nxt, seen \cup nxt)
TransDeps(cfg, id) == ReachRegs(cfg, DepsOfReg(cfg, id), DepsOfReg(cfg, id))

Cyclic(cfg) == \E id \in LiveRegIds(cfg) : id \in TransDeps(cfg, id)

\* a required (non-optional, non-builtin, non-group) parameter nobody provides
MissingParam(cfg, p) == ~IsBuiltin(p) /\ ~IsGroupParam(p) /\ ~p.opt /\ ~HasProvider(cfg, p.t, p.k)
Missing(cfg) == \E id \in LiveRegIds(cfg) : \E j \in DOMAIN Reg(cfg, id).params : MissingParam(cfg, Reg(cfg, id).params[j])

\* a singleton or transient that declares a dependency whose registration is scoped
Conflict(cfg) == \E id \in LiveRegIds(cfg) :
    /\ LifeOf(cfg, id) # "scoped"
    /\ \E d \in DepsOfReg(cfg, id) : LifeOf(cfg, d) = "scoped"

\* registrations whose constructor runs during Build: singletons, root-scope initializers and
\* everything they (transitively) consume
EagerRoots(cfg) == {id \in LiveRegIds(cfg) : LifeOf(cfg, id) = "singleton" \/ (IsInit(Reg(cfg, id)) /\ LifeOf(cfg, id) = "scoped")}
EagerRegs(cfg) == EagerRoots(cfg) \cup UNION {TransDeps(cfg, id) : id \in EagerRoots(cfg)}
EagerFault(cfg) == \E f \in Range(cfg.faults) : f.reg \in EagerRegs(cfg)

Buildable(cfg) == ~Cyclic(cfg) /\ ~Conflict(cfg) /\ ~Missing(cfg)
NDefects(cfg) == (IF Cyclic(cfg) THEN 1 ELSE 0) + (IF Conflict(cfg) THEN 1 ELSE 0) + (IF Missing(cfg) THEN 1 ELSE 0)

(***************************************************************************)
(* A reported cycle path: a sequence of identities (group members carry    *)
(* k = "#<position>", the group itself k = "-" with g set).  Every         *)
(* consecutive pair (and the closing pair) must be a real dependency step. *)
(***************************************************************************)
MemberKey(i) == "#" \o ToString(i)
RegOfPathNode(cfg, a) ==       \* reg id providing path node a, or NONE
    IF a.g # NONE THEN
        (LET ms == GroupMembers(cfg, a.t, a.g)
             is == {i \in DOMAIN ms : MemberKey(i) = a.k}
         IN IF is = {} THEN NONE ELSE ms[CHOOSE i \in is : TRUE][1])
    ELSE IF HasProvider(cfg, a.t, a.k) THEN ProviderOf(cfg, a.t, a.k)[1] ELSE NONE
IsGroupNode(a) == a.g # NONE /\ a.k = NONE
StepOK(cfg, a, b) ==
    IF IsGroupNode(a) THEN      \* group -> one of its members
        b.t = a.t /\ b.g = a.g /\ ~IsGroupNode(b) /\ RegOfPathNode(cfg, b) # NONE
    ELSE LET ra == RegOfPathNode(cfg, a) IN
         /\ ra # NONE
         /\ \E j \in DOMAIN Reg(cfg, ra).params :
              LET p == Reg(cfg, ra).params[j] IN
              /\ ~IsBuiltin(p)
              /\ IF IsGroupParam(p)
                 THEN p.t = b.t /\ p.g = b.g /\ (IsGroupNode(b) \/ RegOfPathNode(cfg, b) # NONE)
                 ELSE b.g = NONE /\ p.t = b.t /\ p.k = b.k
IsRealCycle(cfg, path) ==
    /\ Len(path) >= 1
    /\ LET p == IF Len(path) > 1 /\ path[Len(path)] = path[1] THEN SubSeq(path, 1, Len(path) - 1) ELSE path
           n == Len(p)
       IN \A i \in 1..n : StepOK(cfg, p[i], p[(i % n) + 1])

(***************************************************************************)
(* 3. State.                                                               *)
(***************************************************************************)
NoCall == [op |-> NONE]

InitState(cfg) ==
    [cfg    |-> cfg,
     phase  |-> "new",          \* new | building | built | failed | closed
     skip   |-> FALSE,          \* registration of the configuration failed: nothing is judged
     taint  |-> FALSE,          \* a constructor returned a typed nil: only "no panic" is judged afterwards
     scopes |-> <<>>,           \* name -> [parent, open]
     sing   |-> {},             \* <<reg, out, inst>>
     cache  |-> {},             \* <<scope, reg, out, inst>>
     inst   |-> <<>>,           \* id -> [reg, out, inv, owner, life, disp, born, closed]
     fresh  |-> {},             \* transient instances constructed by the call in progress, not yet consumed
     handed |-> {},             \* transient instances already given to someone
     runs   |-> [id \in RegIds(cfg) |-> 0],
     okruns |-> {},             \* <<reg, scope>> of successful constructions (scope = "prov" for singletons)
     wsig   |-> {},             \* wiring signature of the current Build
     cur    |-> NoCall,
     clock  |-> 0]

ScopeNames(st) == DOMAIN st.scopes
IsOpen(st, s) == s \in ScopeNames(st) /\ st.scopes[s].open
ParentOf(st, s) == st.scopes[s].parent
RECURSIVE Ancestors(_, _)
Ancestors(st, s) == IF s \notin ScopeNames(st) \/ ParentOf(st, s) = NONE THEN {}
                    ELSE {ParentOf(st, s)} \cup Ancestors(st, ParentOf(st, s))
Subtree(st, s) == {x \in ScopeNames(st) : x = s \/ s \in Ancestors(st, x)}
InstIds(st) == DOMAIN st.inst
OwnedBy(st, S) == {i \in InstIds(st) : st.inst[i].owner \in S}
ScopeOfCall(sc) == IF sc = "prov" THEN "root" ELSE sc

\* is instance id a legitimate value for output <<reg,out>> as seen from scope s ?
ProducedFor(st, id, reg, out, s) ==
    LET life == LifeOf(st.cfg, reg) IN
    IF life = "singleton" THEN <<reg, out, id>> \in st.sing
    ELSE IF life = "scoped" THEN <<s, reg, out, id>> \in st.cache
    ELSE id \in InstIds(st) /\ st.inst[id].reg = reg /\ out \in st.inst[id].outs

(***************************************************************************)
(* 4. Apply: the state after an event.                                     *)
(***************************************************************************)
ArgIds(args) == UNION {Range(args[j].ids) : j \in DOMAIN args}
Siblings(st, ids) == {i \in InstIds(st) : \E c \in ids \cap InstIds(st) :
                          st.inst[i].reg = st.inst[c].reg /\ st.inst[i].inv = st.inst[c].inv}
TransientIds(st, ids) == {i \in ids \cap InstIds(st) : st.inst[i].life = "transient"}

DispOf(cfg, reg, out) == LET t == OutsOf(Reg(cfg, reg))[out].t IN
                         IF t \in {"I0", "I1"} THEN SlotType(Reg(cfg, reg).slot) # "S3" ELSE t \notin {"S3", "W"}

ApplyCall(st, e) ==
    LET base == [st EXCEPT !.cur = [op |-> e.op, sc |-> e.sc, name |-> e.name, t |-> e.t, k |-> e.k, g |-> e.g,
                                   failed |-> NONE, failedReg |-> NONE, ncl |-> 0, nclerr |-> 0, cancelled |-> FALSE, ctors |-> 0,
                                   wasOpen |-> (IF e.op \in {"build"} THEN TRUE
                                                ELSE IF e.op = "closeprov" THEN st.phase = "built"
                                                ELSE IsOpen(st, ScopeOfCall(e.sc))),
                                   provOpen |-> st.phase = "built"],
                       !.clock = @ + 1, !.fresh = {}, !.wsig = {}]
    IN IF e.op = "build"
       THEN [base EXCEPT !.phase = "building", !.scopes = ("root" :> [parent |-> NONE, open |-> TRUE])]
       ELSE base

ApplyCtor(st, e) ==
    LET r      == Reg(st.cfg, e.reg)
        life   == r.life
        owner  == IF life = "singleton" THEN "prov" ELSE e.scope
        ok     == e.outcome = "ok"
        used   == TransientIds(st, ArgIds(e.args))
        newIds == IF ok THEN Range(e.outs) ELSE {}
        recs   == [i \in newIds |->
                     LET o == CHOOSE x \in DOMAIN e.outs : e.outs[x] = i IN
                     [reg |-> e.reg, out |-> o, outs |-> {x \in DOMAIN e.outs : e.outs[x] = i}, inv |-> e.inv, owner |-> owner, life |-> life,
                      disp |-> DispOf(st.cfg, e.reg, o) /\ o \notin Rm(r), born |-> st.clock + 1, closed |-> 0]]
        kept   == DOMAIN e.outs \ Rm(r)      \* the value of a removed output is not a service: it is dropped
    IN [st EXCEPT
          !.inst   = recs @@ @,
          !.sing   = IF ok /\ life = "singleton" THEN @ \cup {<<e.reg, o, e.outs[o]>> : o \in kept} ELSE @,
          !.cache  = IF ok /\ life = "scoped" THEN @ \cup {<<e.scope, e.reg, o, e.outs[o]>> : o \in kept} ELSE @,
          !.handed = @ \cup used,
          !.fresh  = (@ \ Siblings(st, used)) \cup (IF life = "transient" THEN newIds ELSE {}),
          !.runs   = [@ EXCEPT ![e.reg] = @ + 1],
          !.okruns = IF ok THEN @ \cup {<<e.reg, owner>>} ELSE @,
          !.wsig   = IF st.cur.op = "build"
                     THEN @ \cup {<<e.reg, j, {<<st.inst[i].reg, st.inst[i].out>> : i \in Range(e.args[j].ids) \cap InstIds(st)}>> : j \in DOMAIN e.args}
                     ELSE @,
          !.taint  = @ \/ e.outcome = "nil",
          !.cur    = IF st.cur.op = NONE THEN @
                     ELSE IF ~ok /\ st.cur.failed = NONE
                     THEN [@ EXCEPT !.failed = e.outcome, !.failedReg = e.reg, !.ctors = @ + 1] ELSE [@ EXCEPT !.ctors = @ + 1],
          !.clock  = @ + 1]

ApplyClose(st, e) ==
    IF e.inst \notin InstIds(st) THEN [st EXCEPT !.clock = @ + 1]
    ELSE [st EXCEPT !.inst = [@ EXCEPT ![e.inst] = [@ EXCEPT !.closed = @ + 1]],
                    !.cur = IF st.cur.op # NONE
                            THEN [@ EXCEPT !.ncl = @ + 1, !.nclerr = @ + (IF e.outcome = "err" THEN 1 ELSE 0)] ELSE @,
                    !.clock = @ + 1]

\* an instance value registered as a singleton: provided by the registration itself, never constructed
ApplyInst(st, e) ==
    [st EXCEPT !.inst = (e.id :> [reg |-> e.reg, out |-> 1, outs |-> {1}, inv |-> 0, owner |-> "prov", life |-> "singleton",
                                  disp |-> DispOf(st.cfg, e.reg, 1), born |-> st.clock + 1, closed |-> 0]) @@ @,
               !.sing = @ \cup {<<e.reg, 1, e.id>>},
               !.okruns = @ \cup {<<e.reg, "prov">>},
               !.clock = @ + 1]

CloseScopes(st, S) == [s \in ScopeNames(st) |-> IF s \in S THEN [st.scopes[s] EXCEPT !.open = FALSE] ELSE st.scopes[s]]

ApplyRet(st, e) ==
    LET c   == st.cur
        ok  == e.err = <<>> /\ ~e.panic
        st1 == [st EXCEPT !.cur = NoCall, !.clock = @ + 1, !.fresh = {}]
    IN
    IF c.op = "build" THEN [st1 EXCEPT !.phase = IF ok THEN "built" ELSE "failed",
                                       !.scopes = IF ok THEN @ ELSE CloseScopes(st, {"root"})]
    ELSE IF c.op = "create" THEN
        (IF ok THEN [st1 EXCEPT !.scopes = @ @@ (c.name :> [parent |-> ScopeOfCall(c.sc), open |-> TRUE])] ELSE st1)
    ELSE IF c.op = "resolve" THEN
        (LET ids == TransientIds(st, Range(e.res.ids))
         IN [st1 EXCEPT !.handed = @ \cup ids])
    ELSE IF c.op = "group" THEN
        (LET ids == TransientIds(st, Range(e.res.ids))
         IN [st1 EXCEPT !.handed = @ \cup ids])
    ELSE IF c.op \in {"close", "cancel"} THEN
        (IF c.sc \in ScopeNames(st) THEN [st1 EXCEPT !.scopes = CloseScopes(st, Subtree(st, c.sc))] ELSE st1)
    ELSE IF c.op = "closeprov" THEN
        [st1 EXCEPT !.scopes = CloseScopes(st, ScopeNames(st)), !.phase = IF st.phase = "built" THEN "closed" ELSE @]
    ELSE st1

Apply(st, e) ==
    IF st.skip THEN st
    ELSE IF e.ev = "adderr" THEN [st EXCEPT !.skip = TRUE]
    ELSE IF e.ev = "call"  THEN ApplyCall(st, e)
    ELSE IF e.ev = "ctor"  THEN ApplyCtor(st, e)
    ELSE IF e.ev = "close" THEN ApplyClose(st, e)
    ELSE IF e.ev = "ret"   THEN ApplyRet(st, e)
    ELSE IF e.ev = "inst"  THEN ApplyInst(st, e)
    ELSE IF e.ev = "cancelbuild" /\ st.cur.op # NONE THEN [st EXCEPT !.cur = [@ EXCEPT !.cancelled = TRUE]]
    ELSE st

(***************************************************************************)
(* 5. Guards.  G(name, tags, ok, kf): kf names the known-deviation         *)
(* predicate that explains a failure ("-" if none does).                   *)
(***************************************************************************)
G(name, tags, ok, kf) == [name |-> name, tags |-> tags, ok |-> ok, kf |-> kf]
AllProps == {"C01", "C02", "C03", "C04", "C05", "C06", "C07", "C08", "C09", "C10", "C11", "C12", "C13", "C14", "C15", "C16", "C17", "C18", "C19", "C20"}
ErrSet(e) == Range(e.err)

\* ---- known-deviation predicates (see known_findings.json) -------------------------------
MultiAlias(r) == Len(r.as) >= 2
KF_Alias(st, reg) == IF MultiAlias(Reg(st.cfg, reg)) THEN "KF_alias_ctor_per_alias" ELSE NONE

\* ---- constructor invocation -------------------------------------------------------------
ExpScopeFor(st, e) == IF LifeOf(st.cfg, e.reg) = "singleton" THEN "root" ELSE e.scope

ParamGuards(st, e, j) ==
    LET r == Reg(st.cfg, e.reg)
        p == r.params[j]
        a == e.args[j]
        s == e.scope
        nm == "arg"
    IN
    IF IsBuiltin(p) THEN
        {G("builtin_arg", {"C18"},
           IF p.b = "prov" THEN a.k = "prov"
           ELSE a.k = p.b /\ a.s = ExpScopeFor(st, e), NONE)}
    ELSE IF IsGroupParam(p) THEN
        LET ms == GroupMembers(st.cfg, p.t, p.g) IN
        {G("group_arg", {"C04"},
           /\ a.k \in {"inst", "zero"}
           /\ Len(a.ids) = Len(ms)
           /\ \A i \in DOMAIN ms : ProducedFor(st, a.ids[i], ms[i][1], ms[i][2], s), NONE)}
    ELSE IF HasProvider(st.cfg, p.t, p.k) THEN
        LET t == ProviderOf(st.cfg, p.t, p.k) IN
        {G("plain_arg", {"C04"},
           \/ /\ a.k = "inst" /\ Len(a.ids) = 1 /\ ProducedFor(st, a.ids[1], t[1], t[2], s)
           \/ /\ p.opt /\ a.k = "zero" /\ ((st.cur.op # NONE /\ st.cur.failed # NONE) \/ Missing(st.cfg)), NONE)}
    ELSE
        {G("missing_optional_zero", {"C04"}, p.opt /\ a.k = "zero", NONE)}

GuardsCtor(st, e) ==
    LET r    == Reg(st.cfg, e.reg)
        life == r.life
        ok   == e.outcome = "ok"
        used == ArgIds(e.args) \cap InstIds(st)
    IN
    UNION {ParamGuards(st, e, j) : j \in DOMAIN r.params}
    \cup {G("ignored_fields_untouched", {"C04"}, e.ign, NONE),
          G("arg_count", {"C04"}, Len(e.args) = Len(r.params), NONE)}
    \cup (IF life = "singleton" THEN
            {G("singleton_once", {"C01"}, st.runs[e.reg] = 0, KF_Alias(st, e.reg)),
             G("singleton_only_at_build", {"C01"}, st.cur.op = "build", NONE),
             G("singleton_deps_first", {"C06"},
               \A j \in DOMAIN r.params : \A d \in ParamTargets(st.cfg, r.params[j]) :
                   LifeOf(st.cfg, d) = "singleton" => <<d, "prov">> \in st.okruns, NONE)}
          ELSE IF life = "scoped" THEN
            {G("scoped_once_per_scope", {"C02"}, ok => <<e.reg, e.scope>> \notin st.okruns, KF_Alias(st, e.reg))}
            \cup (IF IsInit(r) THEN
                    {G("init_at_scope_creation", {"C02"},
                       \/ st.cur.op = "create" /\ st.cur.name = e.scope
                       \/ st.cur.op = "build" /\ e.scope = "root", NONE)}
                  ELSE {})
          ELSE {})
    \cup {G("transient_args_fresh", {"C03"},
            \A i \in TransientIds(st, used) : i \notin st.handed /\ i \in st.fresh, NONE),
          \* every injection site gets its own transient instance: none occurs at two positions of one call
          \* (two parameters / fields, or twice inside one group slice); outputs of one invocation may share a call
          G("transient_args_distinct", {"C03"},
            \A i \in TransientIds(st, used) :
                Cardinality({<<j, x>> \in UNION {{<<jj, xx>> : xx \in DOMAIN e.args[jj].ids} : jj \in DOMAIN e.args} :
                                 e.args[j].ids[x] = i}) = 1, NONE),
          G("no_captive_scoped", {"C07"},
            life # "scoped" => \A i \in used : st.inst[i].life # "scoped", NONE),
          G("no_foreign_args", {"C04"}, \A j \in DOMAIN e.args : e.args[j].k # "foreign", NONE),
          G("outs_count", {"C04"}, ok => Len(e.outs) = NOuts(r), NONE),
          G("removed_registration_never_runs", {"C17"}, LiveReg(st.cfg, e.reg), NONE)}

\* ---- instance Close ---------------------------------------------------------------------
CloserCovers(st, i) ==      \* is the call in progress entitled to close instance i ?
    LET c == st.cur
        owner == st.inst[i].owner
    IN
    IF c.op = NONE THEN FALSE
    ELSE IF c.op \in {"closeprov"} THEN TRUE
    ELSE IF c.op = "build" THEN TRUE                 \* judged at return: only a failing Build may close
    ELSE IF c.op = "create" THEN owner = c.name       \* clean-up of a failing scope creation
    ELSE IF c.op \in {"close", "cancel"} THEN owner \in Subtree(st, c.sc)
    ELSE FALSE

GuardsClose(st, e) ==
    IF e.inst \notin InstIds(st) THEN {G("close_of_unknown_instance", {"C10"}, FALSE, NONE)}
    ELSE
    LET i == e.inst
        me == st.inst[i]
        closedIds == {j \in InstIds(st) : st.inst[j].closed > 0}
    IN
    {G("closed_once", {"C10", "C12"}, me.closed = 0, NONE),
     G("closed_not_early", {"C10"}, CloserCovers(st, i), NONE),
     \* a resolution - failed or not - closes nothing: what was constructed on the way stays owned by its scope and is
     \* disposed when that scope is closed
     G("resolution_closes_nothing", {"C15"}, st.cur.op \notin {"resolve", "group"}, NONE),
     G("reverse_creation_order", {"C11"},
        \A j \in closedIds : ~(st.inst[j].owner = me.owner /\ st.inst[j].born < me.born /\ st.inst[j].inv # me.inv
                               /\ st.inst[j].inv # 0 /\ me.inv # 0), NONE),     \* inv = 0: instance values are not created by the container
     G("children_before_parents", {"C11"},
        me.owner # "prov" => \A j \in closedIds : st.inst[j].owner \notin Ancestors(st, me.owner), NONE),
     G("scopes_before_singletons", {"C11"},
        me.owner # "prov" => \A j \in closedIds : st.inst[j].owner # "prov", NONE)}

\* ---- returns ----------------------------------------------------------------------------
Disposables(st, S) == {i \in OwnedBy(st, S) : st.inst[i].disp}
\* what the property obliges the container to close: what it created itself (inv = 0 marks instance values)
MustClose(st, S) == {i \in Disposables(st, S) : st.inst[i].inv # 0}
AllClosed(st, ids) == \A i \in ids : st.inst[i].closed >= 1

OtherVerdicts == {"notfound", "circular", "lifetimeConflict", "alreadyRegistered", "scopeDisposed", "providerDisposed"}
FailClassOK(c, err) ==
    \* the classes are DISTINGUISHABLE: a constructor failure is none of the container's own verdicts
    IF c.failed = "err" THEN {"ctorError", "cause"} \subseteq err /\ err \cap OtherVerdicts = {}
    ELSE IF c.failed = "panic" THEN {"ctorPanic", "panicval"} \subseteq err /\ err \cap OtherVerdicts = {}
    ELSE IF c.failed = "unil" THEN "validation" \in err       \* an untyped nil result is refused as invalid
    ELSE TRUE

\* a failing construction of an OPTIONAL dependency is swallowed by the container (the field stays zero):
\* registrations reachable through an optional parameter may fail without the call failing
OptTargets(cfg) == UNION {UNION {IF Reg(cfg, id).params[j].opt THEN ParamTargets(cfg, Reg(cfg, id).params[j]) ELSE {}
                                 : j \in DOMAIN Reg(cfg, id).params} : id \in LiveRegIds(cfg)}
OptReach(cfg) == OptTargets(cfg) \cup UNION {TransDeps(cfg, id) : id \in OptTargets(cfg)}
Failed(c) == c.failed \in {"err", "panic", "unil"}
FailureReported(st, c, err) ==
    Failed(c) => /\ (err # {} \/ c.failedReg \in OptReach(st.cfg))
                 /\ (err # {} => FailClassOK(c, err))

GuardsRetBuild(st, e) ==
    LET cfg == st.cfg
        err == ErrSet(e)
        ok  == err = {}
    IN
    {G("cyclic_rejected", {"C05"}, Cyclic(cfg) => ~ok, NONE),
     G("circular_only_if_cyclic", {"C05"}, "circular" \in err => Cyclic(cfg), NONE),
     G("circular_path_real", {"C05"}, ("circular" \in err /\ Cyclic(cfg)) => IsRealCycle(cfg, e.path), NONE),
     G("only_cycle_gives_circular", {"C05"}, (Cyclic(cfg) /\ NDefects(cfg) = 1 /\ ~EagerFault(cfg)) => "circular" \in err, NONE),
     G("conflict_rejected", {"C07"}, (Conflict(cfg) /\ NDefects(cfg) = 1) => "lifetimeConflict" \in err, NONE),
     G("conflict_only_if_conflict", {"C07"}, "lifetimeConflict" \in err => Conflict(cfg), NONE),
     G("buildable_accepted", {"C08", "C06"}, (Buildable(cfg) /\ ~EagerFault(cfg) /\ ~st.cur.cancelled) => ok, NONE),
     \* the context given to BuildWithContext was cancelled by a constructor: whether another creation step
     \* follows depends on the order, so both verdicts are allowed; a failure must say why
     G("cancelled_build_says_so", {"C15"}, (st.cur.cancelled /\ ~ok /\ st.cur.failed = NONE /\ Buildable(cfg)) =>
                                            {"canceled", "build"} \subseteq err, NONE),
     G("only_cancelled_build_is_canceled", {"C15"}, "canceled" \in err => st.cur.cancelled, NONE),
     G("missing_rejected", {"C08"}, Missing(cfg) => ~ok, NONE),
     \* a constructor may have kept the provider it was handed before Build failed: after the clean-up it refuses
     G("failed_build_provider_refuses", {"C13"},
        ("afterfail" \in DOMAIN e /\ ~ok) => \A i \in DOMAIN e.afterfail : e.afterfail[i] \in {"providerDisposed", "scopeDisposed"} => e.afterfail[i] = "providerDisposed", NONE),
     G("failed_build_provider_is_closed", {"C13"},
        ("afterfail" \in DOMAIN e /\ ~ok) => "providerDisposed" \in Range(e.afterfail), NONE),
     G("eager_failure_reported", {"C15"}, FailureReported(st, st.cur, err), NONE),
     G("failed_build_closes_all", {"C10"}, ~ok => AllClosed(st, {i \in InstIds(st) : st.inst[i].disp /\ st.inst[i].inv # 0}), NONE),
     G("ok_build_closes_nothing", {"C10"}, ok => st.cur.ncl = 0, NONE),
     G("no_pending_transients", {"C03"}, ok => st.fresh = {}, NONE),
     G("singletons_all_constructed", {"C01"},
        ok => \A id \in LiveRegIds(cfg) : (LifeOf(cfg, id) = "singleton" /\ Reg(cfg, id).shape \notin {"inst", "instv"}) => st.runs[id] >= 1, NONE)}

ExpectResolveErr(st, c) ==     \* the disposed verdict a resolve/create on scope c.sc must give, or NONE
    IF c.sc = "prov" THEN (IF ~c.provOpen THEN "providerDisposed" ELSE NONE)
    ELSE IF ~c.wasOpen THEN "scopeDisposed" ELSE NONE

GuardsRetResolve(st, e) ==
    LET cfg == st.cfg
        c   == st.cur
        err == ErrSet(e)
        s   == ScopeOfCall(c.sc)
        exp == ExpectResolveErr(st, c)
    IN
    IF exp # NONE THEN {G("closed_refuses", {"C13"}, exp \in err, NONE),
                        G("closed_constructs_nothing", {"C13"}, e.res.k = "none", NONE)}
    ELSE IF c.t \in Builtins /\ c.k = NONE THEN
        {G("builtin_resolve", {"C18"},
           /\ err = {}
           /\ IF c.t = "prov" THEN e.res.k = "prov" ELSE e.res.k = c.t /\ e.res.s = s, NONE)}
    ELSE IF c.t = "V" THEN
        \* a named initialization function resolved by key: it has run when its scope was created - it is found,
        \* and resolving it constructs nothing
        (IF VoidRegs(cfg, c.k) # {}
         THEN {G("initializer_found_by_key", {"C02", "C04"}, (c.failed = NONE) => (err = {} /\ e.res.k = "void"), NONE),
               \* scoped (and singleton) ones ran when their scope was created; a transient one runs per request
               G("initializer_not_run_again", {"C02"},
                 \A id \in VoidRegs(cfg, c.k) : IF LifeOf(cfg, id) = "transient" THEN c.ctors >= 1 ELSE c.ctors = 0, NONE)}
         ELSE {G("unregistered_not_found", {"C04", "C15", "C17"}, "notfound" \in err, NONE)})
    ELSE IF ~HasProvider(cfg, c.t, c.k) THEN
        {G("unregistered_not_found", IF c.t \in Builtins THEN {"C18", "C15"} ELSE {"C04", "C15", "C17"}, "notfound" \in err, NONE)}
    ELSE
    LET t == ProviderOf(cfg, c.t, c.k)
        life == LifeOf(cfg, t[1])
    IN
    {G("registered_found", {"C08"}, "notfound" \notin err, NONE),
     G("failure_classified", {"C15"}, FailureReported(st, c, err), NONE),
     G("no_spurious_failure", {"C15", "C04"}, (c.failed = NONE /\ ~Missing(cfg) /\ ~Cyclic(cfg)) => err = {}, NONE),
     G("result_wired", {"C04"}, err = {} => (e.res.k = "inst" /\ Len(e.res.ids) = 1 /\
                                   e.res.ids[1] \in InstIds(st) /\ st.inst[e.res.ids[1]].reg = t[1] /\ t[2] \in st.inst[e.res.ids[1]].outs), NONE),
     G("singleton_same_instance", {"C01"}, (err = {} /\ life = "singleton") =>
           (Len(e.res.ids) = 1 /\ <<t[1], t[2], e.res.ids[1]>> \in st.sing), NONE),
     G("scoped_same_instance", {"C02"}, (err = {} /\ life = "scoped") =>
           (Len(e.res.ids) = 1 /\ <<s, t[1], t[2], e.res.ids[1]>> \in st.cache), NONE),
     G("transient_fresh", {"C03"}, (err = {} /\ life = "transient") =>
           (Len(e.res.ids) = 1 /\ e.res.ids[1] \notin st.handed /\ e.res.ids[1] \in st.fresh), NONE),
     G("transients_all_consumed", {"C03"}, err = {} =>
           st.fresh \ Siblings(st, Range(e.res.ids)) = {}, NONE),
     G("failed_resolve_returns_nothing", {"C15"}, err # {} => e.res.k = "none", NONE),
     \* a retry after a failure behaves like a first attempt: a success carries an instance of the registration
     G("success_carries_an_instance", {"C15", "C02"}, err = {} => (e.res.k = "inst" /\ Len(e.res.ids) = 1), NONE)}

GuardsRetGroup(st, e) ==
    LET cfg == st.cfg
        c   == st.cur
        err == ErrSet(e)
        s   == ScopeOfCall(c.sc)
        exp == ExpectResolveErr(st, c)
        ms  == GroupMembers(cfg, c.t, c.g)
    IN
    IF exp # NONE THEN {G("closed_refuses", {"C13"}, exp \in err, NONE)}
    ELSE
    {G("group_failure_classified", {"C15"}, FailureReported(st, c, err), NONE),
     G("group_no_spurious_failure", {"C15", "C04"}, (c.failed = NONE /\ ~Missing(cfg) /\ ~Cyclic(cfg)) => err = {}, NONE),
     G("group_members_in_order", {"C04"}, err = {} =>
           /\ Len(e.res.ids) = Len(ms)
           /\ \A i \in DOMAIN ms : ProducedFor(st, e.res.ids[i], ms[i][1], ms[i][2], s), NONE),
     G("group_singletons_same", {"C01"}, err = {} => \A i \in DOMAIN ms :
           (i <= Len(e.res.ids) /\ LifeOf(cfg, ms[i][1]) = "singleton") => <<ms[i][1], ms[i][2], e.res.ids[i]>> \in st.sing, NONE),
     G("group_scoped_same", {"C02"}, err = {} => \A i \in DOMAIN ms :
           (i <= Len(e.res.ids) /\ LifeOf(cfg, ms[i][1]) = "scoped") => <<s, ms[i][1], ms[i][2], e.res.ids[i]>> \in st.cache, NONE),
     G("group_transients_fresh", {"C03"}, err = {} => \A i \in DOMAIN ms :
           (i <= Len(e.res.ids) /\ LifeOf(cfg, ms[i][1]) = "transient") => (e.res.ids[i] \notin st.handed /\ e.res.ids[i] \in st.fresh), NONE),
     G("group_transients_all_consumed", {"C03"}, err = {} => st.fresh \ Siblings(st, Range(e.res.ids)) = {}, NONE)}

GuardsRetCreate(st, e) ==
    LET c   == st.cur
        err == ErrSet(e)
        exp == ExpectResolveErr(st, c)
        created == OwnedBy(st, {c.name})
    IN
    IF exp # NONE THEN {G("closed_refuses_create", {"C13"}, exp \in err, NONE)}
    ELSE
    {G("create_failure_classified", {"C15"}, FailureReported(st, c, err), NONE),
     G("create_no_spurious_failure", {"C15"}, (c.failed = NONE /\ ~Missing(st.cfg) /\ ~Cyclic(st.cfg)) => err = {}, NONE),
     G("failed_create_closes_all", {"C10", "C14"}, err # {} => AllClosed(st, {i \in created : st.inst[i].disp}), NONE),
     G("ok_create_closes_nothing", {"C10"}, err = {} => c.ncl = 0, NONE),
     \* the scope object the initialization functions of a failed creation were handed: its context is cancelled
     \* when the call returns (nothing they bound to that context stays alive)
     G("failed_create_cancels_context", {"C14"}, (err # {} /\ "orphan" \in DOMAIN e) => e.orphan = "canceled", NONE),
     G("initializers_ran_once", {"C02"}, err = {} =>
          \A id \in LiveRegIds(st.cfg) : (IsInit(Reg(st.cfg, id)) /\ LifeOf(st.cfg, id) = "scoped") => <<id, c.name>> \in st.okruns, NONE),
     G("create_ctx_linked", {"C18"}, err = {} => e.ctxok, NONE)}

GuardsRetClose(st, e) ==
    LET c   == st.cur
        err == ErrSet(e)
        sub == IF c.op = "closeprov" THEN ScopeNames(st) \cup {"prov"}
               ELSE IF c.sc \in ScopeNames(st) THEN Subtree(st, c.sc) ELSE {}
    IN
    {G("close_reports_errors", {"C12"}, c.op # "cancel" => (("disposal" \in err) <=> (c.nclerr > 0)), NONE),
     G("close_no_other_error", {"C12"}, err \subseteq {"disposal"}, NONE),
     G("second_close_noop", {"C12"}, ~c.wasOpen => (err = {} /\ c.ncl = 0), NONE),
     G("close_closes_all_owned", {"C10", "C12"}, AllClosed(st, MustClose(st, sub)), NONE),
     \* cancelling the context given to CreateScope is visible on the scope's context when cancel() returns
     G("cancel_reaches_scope_ctx", {"C18"}, c.op = "cancel" => e.ctxok, NONE)}

GuardsRet(st, e) ==
    {G("no_panic", {"C15"}, ~e.panic, NONE)} \cup
    (IF st.taint THEN {}
     ELSE IF st.cur.op = "build" THEN GuardsRetBuild(st, e)
     ELSE IF st.cur.op = "resolve" THEN GuardsRetResolve(st, e)
     ELSE IF st.cur.op = "group" THEN GuardsRetGroup(st, e)
     ELSE IF st.cur.op = "create" THEN GuardsRetCreate(st, e)
     ELSE IF st.cur.op \in {"close", "cancel", "closeprov"} THEN GuardsRetClose(st, e)
     ELSE {})

\* ---- API calls with nil / zero / unregistered / mismatched arguments, and on closed containers (C15) ----------
\* call |-> [must: classes that have to be among the error's classes, ok: the call succeeds, panics: panics by contract]
AE(must) == [must |-> must, ok |-> FALSE, panics |-> FALSE]
AOK == [must |-> {}, ok |-> TRUE, panics |-> FALSE]
APANIC == [must |-> {}, ok |-> FALSE, panics |-> TRUE]
AbuseTable ==
    [add_nil |-> AE({"ctorNil"}), add_typed_nil_pointer |-> AE({"ctorNil"}), add_nil_func |-> AE({}),
     add_name_and_group |-> AE({"validation"}), add_nil_option |-> AOK, add_duplicate |-> AE({"alreadyRegistered"}),
     add_keyed |-> AOK, add_group |-> AOK, add_modules_nil |-> AOK, add_module_failing |-> AE({"module", "alreadyRegistered"}),
     contains_nil |-> AOK, build_cancelled_context |-> AE({"build"}), build_nil_options |-> AOK, build |-> AOK,
     get_nil_type |-> AE({"typeNil"}), getkeyed_nil_type |-> AE({"typeNil"}), getkeyed_nil_key |-> AE({"keyNil"}),
     getgroup_nil_type |-> AE({"typeNil"}), getgroup_empty_name |-> AE({"groupEmpty"}),
     get_unregistered |-> AE({"notfound"}), getkeyed_unregistered_key |-> AE({"notfound"}),
     get_keyed_service_without_key |-> AE({"notfound"}), getgroup_unknown_group |-> AOK, get_ok |-> AOK,
     resolve_nil_provider |-> AE({"providerNil"}), resolvekeyed_nil_provider |-> AE({"providerNil"}),
     resolvegroup_nil_provider |-> AE({"providerNil"}), resolvekeyed_nil_key |-> AE({"keyNil"}),
     resolvegroup_empty_name |-> AE({"groupEmpty"}), resolve_unregistered_interface |-> AE({"notfound"}),
     resolve_ok |-> AOK, resolvegroup_ok |-> AOK, mustresolve_ok |-> AOK, mustresolve_unregistered |-> APANIC,
     mustresolvekeyed_unregistered |-> APANIC, mustresolvegroup_empty_name |-> APANIC,
     fromcontext_nil |-> AE({}), fromcontext_no_scope |-> AE({}), createscope_nil_context |-> AOK,
     scope_get_nil_type |-> AE({"typeNil"}), scope_getkeyed_nil_key |-> AE({"keyNil"}), scope_getkeyed_ok |-> AOK,
     scope_close |-> AOK, scope_close_again |-> AOK,
     closed_scope_get |-> AE({"scopeDisposed"}), closed_scope_getkeyed |-> AE({"scopeDisposed"}),
     closed_scope_getgroup |-> AE({"scopeDisposed"}), closed_scope_getgroup_empty |-> AE({"scopeDisposed"}),
     closed_scope_resolvegroup_empty |-> AE({"scopeDisposed"}), closed_provider_getgroup_empty |-> AE({"providerDisposed"}), closed_scope_createscope |-> AE({"scopeDisposed"}),
     closed_scope_resolve |-> AE({"scopeDisposed"}), provider_close |-> AOK, provider_close_again |-> AOK,
     closed_provider_get |-> AE({"providerDisposed"}), closed_provider_getkeyed |-> AE({"providerDisposed"}),
     closed_provider_getgroup |-> AE({"providerDisposed"}), closed_provider_createscope |-> AE({"providerDisposed"}),
     closed_provider_mustresolve |-> APANIC,
     \* constructors whose last result is a concrete type implementing error (not the error interface)
     ctor_pointer_error_reported |-> AE({"ctorError"}), ctor_pointer_error_retry |-> AOK,
     ctor_pointer_error_build |-> AE({"ctorError", "build"}),
     ctor_struct_error_add |-> AOK, ctor_struct_error_build |-> AOK, ctor_struct_error_resolve |-> AOK,
     \* disposable services that are values (not comparable / all equal): each constructed value closed exactly once
     value_disposables_closed |-> AOK,
     \* user code that calls back into the container (each call under a watchdog: not returning is a failure):
     \* an instance whose Close closes its own scope - directly or from a goroutine it waits for - while that scope is
     \* closed by itself / its parent / the provider; an instance that uses its closing scope; a scoped constructor
     \* that fetches a scoped dependency from the injected scope or opens a child scope; a singleton whose Close
     \* closes the provider
     reentrant_close_via_scope |-> AOK, reentrant_close_via_parent |-> AOK, reentrant_close_via_provider |-> AOK,
     reentrant_goclose_via_scope |-> AOK, reentrant_goclose_via_parent |-> AOK, reentrant_goclose_via_provider |-> AOK,
     reentrant_resolve_while_closing |-> AOK, reentrant_create_while_closing |-> AOK,
     reentrant_resolve_in_ctor |-> AOK, reentrant_child_scope_in_ctor |-> AOK,
     reentrant_provider_close_from_singleton |-> AOK,
     \* a result object whose constructor leaves a non-last field nil: every other field keeps exactly its own identity
     out_nil_field_scoped |-> AOK, out_nil_field_transient |-> AOK, out_nil_field_singleton |-> AOK,
     \* the goroutine that claimed a scoped construction ends inside the constructor (runtime.Goexit): later resolutions return
     ctor_goexit_releases_waiters |-> AOK,
     \* a failing instance Close whose error wraps one of the container's sentinels is reported like any other failure
     close_error_wrapping_sentinel_own_0 |-> AOK, close_error_wrapping_sentinel_own_1 |-> AOK,
     close_error_wrapping_sentinel_parent_0 |-> AOK, close_error_wrapping_sentinel_parent_1 |-> AOK,
     close_error_wrapping_sentinel_provider_0 |-> AOK, close_error_wrapping_sentinel_provider_1 |-> AOK,
     \* a factory-style constructor that resolves a collaborator through the injected scope and wraps the collaborator's
     \* failure in its own error: its own error is what the container wraps
     lazy_ctor_own_error_scoped_err |-> AOK, lazy_ctor_own_error_scoped_panic |-> AOK,
     lazy_ctor_own_error_transient_err |-> AOK, lazy_ctor_own_error_transient_panic |-> AOK,
     lazy_ctor_own_error_singleton_err |-> AOK, lazy_ctor_own_error_singleton_panic |-> AOK]
\* calls of the battery that also speak for other properties
ReClose == {"C12", "C13", "C10", "C09"}
AbuseTags == [value_disposables_closed |-> {"C10", "C12"},
              reentrant_close_via_scope |-> ReClose, reentrant_close_via_parent |-> ReClose, reentrant_close_via_provider |-> ReClose,
              reentrant_goclose_via_scope |-> ReClose, reentrant_goclose_via_parent |-> ReClose, reentrant_goclose_via_provider |-> ReClose,
              reentrant_resolve_while_closing |-> {"C13"}, reentrant_create_while_closing |-> {"C13"},
              reentrant_resolve_in_ctor |-> {"C02", "C10"}, reentrant_child_scope_in_ctor |-> {"C02", "C10"},
              reentrant_provider_close_from_singleton |-> ReClose,
              out_nil_field_scoped |-> {"C04", "C10"}, out_nil_field_transient |-> {"C04", "C10"}, out_nil_field_singleton |-> {"C04", "C01", "C10"},
              ctor_goexit_releases_waiters |-> {"C09", "C02"},
              close_error_wrapping_sentinel_own_0 |-> {"C12"}, close_error_wrapping_sentinel_own_1 |-> {"C12"},
              close_error_wrapping_sentinel_parent_0 |-> {"C12"}, close_error_wrapping_sentinel_parent_1 |-> {"C12"},
              close_error_wrapping_sentinel_provider_0 |-> {"C12"}, close_error_wrapping_sentinel_provider_1 |-> {"C12"}]
TagsOfAbuse(call) == {"C15"} \cup (IF call \in DOMAIN AbuseTags THEN AbuseTags[call] ELSE {})

GuardsAbuse(e) ==
    IF e.call \notin DOMAIN AbuseTable THEN {G("known_abuse_call", {"C15"}, FALSE, NONE)}
    ELSE LET x == AbuseTable[e.call]
             err == Range(e.err)
         IN {G("panics_only_by_contract", TagsOfAbuse(e.call), e.panic = x.panics, NONE),
             G("failure_is_classifiable", {"C15"}, (~x.ok /\ ~x.panics) => (err # {} /\ x.must \subseteq err), NONE),
             G("valid_call_succeeds", TagsOfAbuse(e.call), x.ok => err = {}, NONE),
             G("closed_means_closed", {"C13"}, (x.must \cap {"scopeDisposed", "providerDisposed"} # {}) => x.must \subseteq err, NONE)}

\* ---- quiescent observation (goroutines, reachability after GC, context state) ---------------
OpenScopesWithWatcher(st) == {s \in ScopeNames(st) : s # "root" /\ st.scopes[s].open}
GuardsObs(st, e) ==
    {G("no_goroutine_left_behind", {"C14"}, e.goroutines <= Cardinality(OpenScopesWithWatcher(st)), NONE),
     G("closed_scopes_unreachable", {"C14"}, \A s \in Range(e.alive_scopes) : s \in ScopeNames(st) => (st.scopes[s].open \/ (s = "root" /\ st.phase = "built")), NONE),
     G("instances_of_closed_scopes_unreachable", {"C14"}, \A i \in Range(e.alive_insts) \cap InstIds(st) :
          IF st.inst[i].owner = "prov" THEN st.phase = "built"
          ELSE (st.inst[i].owner \in ScopeNames(st) /\ st.scopes[st.inst[i].owner].open), NONE),
     G("refused_creation_leaves_nothing", {"C14"}, \A i \in DOMAIN e.orphans : e.orphans[i] = "canceled", NONE),
     G("closed_scope_context_cancelled", {"C14"}, \A s \in (ScopeNames(st) \ {"root"}) \cap DOMAIN e.ctx :
          ~st.scopes[s].open => e.ctx[s] = "canceled", NONE)}

Guards(st, e) ==
    IF st.skip THEN {}
    ELSE IF e.ev = "obs" /\ ~st.taint THEN GuardsObs(st, e)
    ELSE IF e.ev = "abuse" THEN GuardsAbuse(e)
    ELSE IF e.ev = "ret" THEN GuardsRet(st, e)
    ELSE IF st.taint THEN {}
    ELSE IF e.ev = "ctor" THEN GuardsCtor(st, e)
    ELSE IF e.ev = "close" THEN GuardsClose(st, e)
    \* the process crashed (Go runtime fatal error / panic outside any call) or a call never returned while a scenario
    \* of the property under check was running: whatever that property promises about the call did not happen
    ELSE IF e.ev = "fatal" THEN {G("no_fatal_crash", AllProps, FALSE, NONE)}
    ELSE IF e.ev = "hang" THEN {G("call_terminates", AllProps, FALSE, NONE)}
    ELSE {}
=============================================================================
