------------------------------ MODULE Registry ------------------------------
(***************************************************************************)
(* The collection as an exact, atomic registry (C17), modules as           *)
(* transparent groupings of registration calls (C20), and the ban on       *)
(* registering the built-in injectable types (C18).                        *)
(*                                                                         *)
(* State: live = the sequence of descriptors a Build would use, one per    *)
(* provided identity, in registration order; snaps = what each provider    *)
(* built so far was built from.  Items are Add* calls (same record shape   *)
(* as Container's registrations plus `bad`: the reason the call must be    *)
(* rejected whatever the state, "" if none).                               *)
(***************************************************************************)
EXTENDS Container

\* ---- items ---------------------------------------------------------------------------------
ReservedBad == {"retctx", "retprov", "asctx", "multiscope", "outprov", "outctxgroup", "multiscopegroup", "asctxgroup"}
InvalidBad  == {"nameandgroup", "backquote", "asstruct", "nilctor", "nilfunc", "outnamegroup"}

Desc(item, o) == LET x == OutsOf(item)[o] IN
                 [item |-> item.id, out |-> o, t |-> x.t, k |-> x.k, g |-> x.g, life |-> item.life, shape |-> item.shape]
DescsOf(item) == [o \in 1..NOuts(item) |-> Desc(item, o)]

IdentTaken(live, t, k) == \E i \in DOMAIN live : live[i].g = NONE /\ live[i].t = t /\ live[i].k = k

\* two outputs of one call that claim the same non-group identity
SelfCollision(item) == \E a, b \in 1..NOuts(item) : a < b /\ LET x == OutsOf(item)[a] y == OutsOf(item)[b] IN
                           x.g = NONE /\ y.g = NONE /\ x.t = y.t /\ x.k = y.k
Duplicate(live, item) == SelfCollision(item) \/ \E o \in 1..NOuts(item) :
                             LET x == OutsOf(item)[o] IN x.g = NONE /\ IdentTaken(live, x.t, x.k)
Rejected(live, item) == item.bad # "" \/ Duplicate(live, item)

\* ---- operations on live --------------------------------------------------------------------
RAdd(live, item) == IF Rejected(live, item) THEN live ELSE live \o DescsOf(item)
Keep(live, gone) == SelectSeq(live, LAMBDA d : ~(d.g = NONE /\ <<d.t, d.k>> \in gone))
\* Remove(t) removes the unkeyed registration of t; RemoveKeyed(t,k) the keyed one.  (Whether Remove also
\* drops keyed or grouped registrations of the type is not fixed by the property; the specification takes
\* the narrow reading and the observation guards below would flag any disagreement with later builds.)
RRemove(live, t) == Keep(live, {<<t, NONE>>})
RRemoveKeyed(live, t, k) == Keep(live, {<<t, k>>})

\* a module tree is given as its left-to-right leaves, each with the chain of enclosing module names
LeafFails(live, lf, items) == lf.kind = "add" /\ Rejected(live, items[lf.item])
LeafApply(live, lf, items) ==
    IF lf.kind = "add" THEN RAdd(live, items[lf.item])
    ELSE IF lf.kind = "rm" THEN RRemove(live, lf.t)
    ELSE IF lf.kind = "rmk" THEN RRemoveKeyed(live, lf.t, lf.k)
    ELSE live                                           \* nil entries are ignored
RECURSIVE RModules(_, _, _, _)
RModules(live, leaves, i, items) ==     \* [live, failed (index of the failing leaf or 0)]
    IF i > Len(leaves) THEN [live |-> live, failed |-> 0]
    ELSE IF LeafFails(live, leaves[i], items) THEN [live |-> live, failed |-> i]
    ELSE RModules(LeafApply(live, leaves[i], items), leaves, i + 1, items)

\* ---- what the queries and a built provider must show -----------------------------------------
QTypes == {"S0", "S1", "S2", "S3", "I0", "I1"}
QKeys == {NONE, "k"}
Contains(live, t) == IdentTaken(live, t, NONE)
ContainsKeyed(live, t, k) == IdentTaken(live, t, k)
SliceOf(live) == [i \in DOMAIN live |-> [t |-> live[i].t, k |-> live[i].k, g |-> live[i].g, life |-> live[i].life]]
Bag(seq) == [x \in Range(seq) |-> Cardinality({i \in DOMAIN seq : seq[i] = x})]
\* "type/key=item": every live non-group identity resolves, and to an instance made by ITS registration
ResolvableSet(live) == {d.t \o "/" \o d.k \o "=" \o d.item : d \in {live[i] : i \in {j \in DOMAIN live : live[j].g = NONE}}}
GroupSize(live, t, g) == Cardinality({i \in DOMAIN live : live[i].t = t /\ live[i].g = g})
\* constructors that run at Build: one invocation per singleton item that still provides something
EagerItems(live) == {live[i].item : i \in {j \in DOMAIN live : live[j].life = "singleton" /\ live[j].shape # "inst"}}

\* how many times an item is currently registered (the same Add call may be issued repeatedly for group members)
TimesRegistered(live, it) == LET outs == {live[i].out : i \in {j \in DOMAIN live : live[j].item = it}} IN
    IF outs = {} THEN 0 ELSE Max({Cardinality({i \in DOMAIN live : live[i].item = it /\ live[i].out = o}) : o \in outs})

\* ---- state + Apply ----------------------------------------------------------------------------
RInit(items) == [items |-> items, live |-> <<>>, snaps |-> <<>>]

RApply(rs, e) ==
    IF e.ev = "add" THEN [rs EXCEPT !.live = RAdd(@, rs.items[e.item])]
    ELSE IF e.ev = "remove" THEN [rs EXCEPT !.live = RRemove(@, e.t)]
    ELSE IF e.ev = "removekeyed" THEN [rs EXCEPT !.live = RRemoveKeyed(@, e.t, e.k)]
    ELSE IF e.ev = "modules" THEN [rs EXCEPT !.live = RModules(@, e.leaves, 1, rs.items).live]
    ELSE IF e.ev = "built" THEN [rs EXCEPT !.snaps = Append(@, rs.live)]
    ELSE rs

\* ---- guards -----------------------------------------------------------------------------------
RG(name, tags, ok) == [name |-> name, tags |-> tags, ok |-> ok, kf |-> NONE]

GuardsAdd(rs, e) ==
    LET item == rs.items[e.item]
        err == Range(e.err)
        tag == IF item.bad \in ReservedBad THEN {"C18"} ELSE {"C17"}
    IN {RG("add_verdict", tag, (err # {}) <=> Rejected(rs.live, item)),
        RG("duplicate_is_already_registered", {"C17", "C15"},
           (item.bad = "" /\ Duplicate(rs.live, item)) => "alreadyRegistered" \in err),
        RG("already_registered_only_for_duplicates", {"C17", "C15"},
           "alreadyRegistered" \in err => Duplicate(rs.live, item)),
        RG("add_no_panic", {"C15"}, ~e.panic)}

GuardsQ(rs, e, tags) ==      \* evaluated AFTER the operation was applied
    {RG("contains", tags, \A t \in QTypes : e.contains[t] = Contains(rs.live, t)),
     RG("contains_keyed", tags, \A t \in QTypes : e.ckeyed[t] = ContainsKeyed(rs.live, t, "k")),
     RG("count", tags, e.count = Len(rs.live)),
     RG("to_slice", tags, Bag(e.slice) = Bag(SliceOf(rs.live)))}

\* constructor runs while the matrix is taken (one fresh scope, every identity and every group resolved once): singletons
\* exist since Build, a scoped registration runs once for the scope however many identities it provides
RunsOK(live, e) ==
    \A it \in DOMAIN e.mruns :
        LET lifes == {live[i].life : i \in {j \in DOMAIN live : live[j].item = it}} IN
        /\ "singleton" \notin lifes
        /\ ("scoped" \in lifes => e.mruns[it] = 1)
MatrixOK(live, e) ==
    /\ Range(e.resolvable) = ResolvableSet(live)
    /\ \A t \in QTypes : e.groups[t] = GroupSize(live, t, "g")
    /\ RunsOK(live, e)

GuardsBuilt(rs, e, tags) ==   \* evaluated before the snapshot is appended; rs.live is what was built
    {RG("build_ok", tags, e.err = <<>>),
     RG("only_live_constructors_run", tags, e.err = <<>> => Range(e.ran) = EagerItems(rs.live)),
     RG("each_constructor_once_per_registration", tags, e.err = <<>> => \A it \in Range(e.ran) :
          Cardinality({i \in DOMAIN e.ran : e.ran[i] = it}) = TimesRegistered(rs.live, it)),
     RG("built_matches_collection", tags, e.err = <<>> => MatrixOK(rs.live, e))}

GuardsProbe(rs, e) ==
    {RG("built_provider_unaffected", {"C17"}, e.p \in DOMAIN rs.snaps => MatrixOK(rs.snaps[e.p], e))}

GuardsModules(rs, e) ==
    LET r == RModules(rs.live, e.leaves, 1, rs.items)
        err == Range(e.err)
    IN {RG("modules_verdict", {"C20"}, (err # {}) <=> (r.failed # 0)),
        RG("modules_error_chain", {"C20"}, r.failed # 0 => e.chain = e.leaves[r.failed].chain),
        RG("modules_no_chain_on_success", {"C20"}, r.failed = 0 => e.chain = <<>>),
        RG("modules_cause_reachable", {"C20", "C15"},
           (r.failed # 0 /\ rs.items[e.leaves[r.failed].item].bad = "" ) => "alreadyRegistered" \in err),
        RG("modules_no_panic", {"C15"}, ~e.panic)}

GuardsTwin(e) ==
    {RG("module_equals_direct_calls", {"C20"},
        /\ e.a.contains = e.b.contains /\ e.a.ckeyed = e.b.ckeyed /\ e.a.count = e.b.count
        /\ Bag(e.a.slice) = Bag(e.b.slice))}
=============================================================================
