---------------------------- MODULE DepGraphTrace ----------------------------
(* Trace specification: replays a trace recorded from the real graph        *)
(* component through DepGraph's GApply and evaluates every property-tagged   *)
(* guard at every step.  The whole trace is always consumed; failures are    *)
(* collected in viol (tag, guard, line) and printed at the end.              *)
EXTENDS DepGraph, Json, IOUtils

CONSTANT Check        \* property ids whose guards are enforced

Trace == ndJsonDeserialize(IOEnv.VERIF_TRACE)

VARIABLES l, g, viol, nev
tvars == <<l, g, viol, nev>>

TInit == l = 1 /\ g = EmptyGraph /\ viol = {} /\ nev = 0

Step ==
    /\ l <= Len(Trace)
    /\ LET e  == Trace[l]
           gs == IF e.ev = "panic" THEN {G("nopanic", {"C19", "C05", "C06"}, FALSE)}
                 \* a query that never returned (hang) or took the process down (fatal, e.g. unbounded recursion)
                 ELSE IF e.ev \in {"hang", "fatal"} THEN {G("call_terminates", {"C19", "C05", "C06"}, FALSE)}
                 ELSE Guards(g, e)
       IN  /\ g' = IF e.ev = "reset" THEN EmptyGraph ELSE GApply(g, e)
           /\ viol' = viol \cup UNION {{<<t, gd.name, l>> : t \in gd.tags \cap Check} : gd \in {x \in gs : ~x.ok}}
           /\ nev' = nev + Cardinality(gs)
    /\ l' = l + 1

Finish ==
    /\ l = Len(Trace) + 1
    /\ PrintT(<<"RESULT", ToJson([lines |-> Len(Trace), evals |-> nev, viol |-> viol])>>)
    /\ l' = l + 1
    /\ UNCHANGED <<g, viol, nev>>

TNext == Step \/ Finish
TraceSpec == TInit /\ [][TNext]_tvars
=============================================================================
