----------------------------- MODULE RegistryMC -----------------------------
(* Exhaustive design model of the registry + scenario generator (one         *)
(* scenario per transition, as for the other models).                        *)
EXTENDS Registry, Json

CONSTANTS RmPool, RmKeyed   \* the types Remove may name / whether RemoveKeyed is issued (restricted for deeper histories)
CONSTANTS MaxOps, Mode, EmitOn, AddPool   \* AddPool: the items Add may use in mode "calls" (all, or a subset for deeper histories)
\*      \* Mode: "calls" (Add/Remove/Build histories) or "modules" (one module tree, then Build)

VARIABLES rs, hist
vars == <<rs, hist>>

N0 == "-"
It(id, life, slot, var, shape) ==
    [id |-> id, life |-> life, slot |-> slot, slot2 |-> 0, var |-> var, shape |-> shape, po |-> FALSE,
     name |-> N0, group |-> N0, as |-> <<>>, params |-> <<>>, kind |-> "", bad |-> ""]
WithName(i) == [i EXCEPT !.name = "k"]
WithGroup(i) == [i EXCEPT !.group = "g"]
WithAs(i, a) == [i EXCEPT !.as = a]
With2(i, s) == [i EXCEPT !.slot2 = s]
Bad(i, b) == [i EXCEPT !.bad = b]

ItemList == <<
    It("a1", "singleton", 0, "a", "ctorerr"),                         \* S0
    WithName(It("a2", "singleton", 0, "b", "ctorerr")),              \* S0 / "k"
    WithGroup(It("a3", "singleton", 0, "a", "ctor")),                \* S0 in group g
    WithGroup(It("a4", "transient", 0, "b", "ctor")),                \* S0 in group g (second member)
    It("a5", "scoped", 1, "a", "ctorerr"),                            \* S1
    With2(It("a6", "singleton", 0, "a", "multi"), 1),                 \* (S0, S1): collides with a1 / a5
    With2(It("a7", "singleton", 2, "a", "multierr"), 1),              \* (S2, S1): second output collides with a5
    With2(It("a8", "scoped", 2, "a", "outkn"), 0),                    \* Out{S2; S0 "k"}: second output collides with a2
    WithAs(It("a9", "singleton", 3, "a", "ctorerr"), <<"I0">>),       \* S3 as I0
    WithAs(It("a10", "singleton", 2, "b", "ctorerr"), <<"I0", "I1">>),\* S2 as I0, I1: collides with a9 on I0
    It("a11", "singleton", 0, "a", "inst"),                           \* instance value of S0
    WithAs(It("a15", "scoped", 1, "b", "ctorerr"), <<"I0", "I1">>),   \* scoped S1 as I0, I1 (one instance per scope serves both)
    WithName(With2(It("a16", "transient", 3, "a", "multierr"), 2)),   \* transient (S3 "k", S2)
    WithName(WithAs(It("a14", "singleton", 3, "b", "ctorerr"), <<"I0">>)),   \* S3 as I0 / "k"
    Bad(It("b1", "singleton", 0, "a", "ctorerr"), "nameandgroup"),
    Bad(It("b2", "singleton", 0, "a", "ctorerr"), "backquote"),
    Bad(It("b3", "singleton", 0, "a", "ctorerr"), "asstruct"),
    Bad(It("b4", "singleton", 0, "a", "ctorerr"), "nilctor"),
    Bad(It("b5", "singleton", 0, "a", "ctorerr"), "nilfunc"),
    Bad(It("b6", "singleton", 3, "a", "ctorerr"), "outnamegroup"),    \* Out{S3; S0 `name:"k" group:"g"`}
    Bad(It("c1", "singleton", 0, "a", "ctorerr"), "retctx"),
    Bad(It("c2", "scoped", 0, "a", "ctorerr"), "retprov"),
    Bad(It("c3", "singleton", 0, "a", "ctorerr"), "asctx"),
    Bad(It("c4", "singleton", 0, "a", "ctorerr"), "multiscope"),
    Bad(It("c5", "transient", 0, "a", "ctorerr"), "outprov"),
    \* ... and in a secondary position that is also a group member
    Bad(It("c6", "singleton", 3, "a", "ctorerr"), "outctxgroup"),     \* Out{S3; context.Context `group:"g"`}
    Bad(It("c7", "scoped", 3, "a", "ctorerr"), "multiscopegroup"),    \* (S3, Scope) + Group("g")
    Bad(It("c8", "singleton", 0, "a", "ctorerr"), "asctxgroup") >>    \* As[context.Context] + Group("g")
Items == [id \in {ItemList[i].id : i \in DOMAIN ItemList} |-> ItemList[CHOOSE i \in DOMAIN ItemList : ItemList[i].id = id]]
ItemIds == DOMAIN Items
ModItems == {"a1", "a2", "a3", "a5", "a6", "a14", "b1", "b2"}
Chains == {<<>>, <<"m1">>, <<"m1", "m2">>, <<"m2">>, <<"m1", "m1">>}     \* incl. a module nested in a module of the same name
RmTypes == {"S0", "S1", "I0"}

Init == rs = RInit(Items) /\ hist = <<>>

Do(e, op) == rs' = RApply(rs, e) /\ hist' = Append(hist, op)
Room == Len(hist) < MaxOps

Add == Room /\ Mode = "calls" /\ \E i \in AddPool :
          Do([ev |-> "add", item |-> i], [op |-> "add", item |-> i])
Remove == Room /\ Mode = "calls" /\ \E t \in RmTypes \cap RmPool :
          Do([ev |-> "remove", t |-> t], [op |-> "remove", t |-> t])
\* keys: the name "k", and the INTEGER 1 (written "#1": nothing is registered under it - positions inside a group
\* are not keys)
RemoveKeyed == Room /\ Mode = "calls" /\ RmKeyed /\ \E t \in {"S0", "S1", "I0"} \cap RmPool, k \in {"k", "#1"} :
          Do([ev |-> "removekeyed", t |-> t, k |-> k], [op |-> "removekeyed", t |-> t, k |-> k])
LastOp == IF hist = <<>> THEN "-" ELSE hist[Len(hist)].op
Build == Room /\ Mode = "calls" /\ Len(rs.snaps) < 2 /\ LastOp # "build"
          /\ Do([ev |-> "built"], [op |-> "build"])

Leaves == {[kind |-> "add", item |-> i, t |-> N0, k |-> N0, chain |-> c] : i \in ModItems, c \in Chains}
     \cup {[kind |-> "rm", item |-> N0, t |-> "S0", k |-> N0, chain |-> c] : c \in Chains}
     \cup {[kind |-> "rmk", item |-> N0, t |-> t, k |-> "k", chain |-> c] : c \in {<<>>, <<"m1">>}, t \in {"S0", "I0"}}
     \cup {[kind |-> "nil", item |-> N0, t |-> N0, k |-> N0, chain |-> c] : c \in {<<>>, <<"m1", "m2">>}}
\* consecutive leaves describe one tree: nesting only changes by entering / leaving modules at the boundary
Modules == Mode = "modules" /\ Len(hist) = 0 /\ \E n \in 1..MaxOps : \E ls \in [1..n -> Leaves] :
          Do([ev |-> "modules", leaves |-> ls], [op |-> "modules", leaves |-> ls])
\* the SAME module values applied to the same collection a second time (after a failure, possibly after the conflict
\* was removed by hand): a module keeps no memory of earlier applications - it is again its direct calls
NModules == Cardinality({i \in DOMAIN hist : hist[i].op = "modules"})
ModulesAgain == Mode = "modules" /\ Len(hist) \in 1..2 /\ NModules = 1 /\ LastOp # "build" /\ Len(hist[1].leaves) <= 2
          /\ Do([ev |-> "modules", leaves |-> hist[1].leaves], [op |-> "modulesagain", leaves |-> hist[1].leaves])
EditBetween == Mode = "modules" /\ Len(hist) = 1 /\ Len(hist[1].leaves) <= 2 /\
          \/ Do([ev |-> "remove", t |-> "S0"], [op |-> "remove", t |-> "S0"])
          \/ Do([ev |-> "removekeyed", t |-> "S0", k |-> "k"], [op |-> "removekeyed", t |-> "S0", k |-> "k"])
BuildAfterModules == Mode = "modules" /\ Len(hist) >= 1 /\ LastOp \in {"modules", "modulesagain"}
          /\ Do([ev |-> "built"], [op |-> "build"])

Next == Add \/ Remove \/ RemoveKeyed \/ Build \/ Modules \/ ModulesAgain \/ EditBetween \/ BuildAfterModules
Spec == Init /\ [][Next]_vars

\* in module mode the follow-up steps depend on the tree that was applied (and on whether it failed), not only on
\* what it left behind: every history is kept
View == IF Mode = "modules" THEN <<rs.live, rs.snaps, hist>> ELSE <<rs.live, rs.snaps, Len(hist)>>
\* every history kept (for small pools): what the implementation numbers, caches or prunes along the way is not part of
\* the reference state
ViewH == <<rs.live, rs.snaps, hist>>
Emit == IF EmitOn THEN PrintT(<<"SCN", ToJson([items |-> Items, ops |-> hist'])>>) ELSE TRUE

\* ---- design properties -------------------------------------------------------------------------
AtMostOnePerIdentity == \A i, j \in DOMAIN rs.live :
    (i # j /\ rs.live[i].g = NONE /\ rs.live[j].g = NONE) => <<rs.live[i].t, rs.live[i].k>> # <<rs.live[j].t, rs.live[j].k>>
NoReservedLive == \A i \in DOMAIN rs.live : rs.live[i].t \notin {"ctx", "scope", "prov"}
\* a rejected registration leaves the collection as it was; an accepted one appends exactly its descriptors
AddAtomic == [][(hist' # hist /\ hist'[Len(hist')].op = "add") =>
                 LET it == Items[hist'[Len(hist')].item] IN
                 IF Rejected(rs.live, it) THEN rs'.live = rs.live ELSE rs'.live = rs.live \o DescsOf(it)]_vars
\* snapshots never change once taken
SnapshotsStable == [][\A p \in DOMAIN rs.snaps : rs'.snaps[p] = rs.snaps[p]]_vars
\* a module tree is the same as its flattened leaves applied one by one until the first failure
RECURSIVE Direct(_, _, _)
Direct(live, ls, i) == IF i > Len(ls) THEN live
                       ELSE IF LeafFails(live, ls[i], Items) THEN live
                       ELSE Direct(RApply([items |-> Items, live |-> live, snaps |-> <<>>],
                                          IF ls[i].kind = "add" THEN [ev |-> "add", item |-> ls[i].item]
                                          ELSE IF ls[i].kind = "rm" THEN [ev |-> "remove", t |-> ls[i].t]
                                          ELSE IF ls[i].kind = "rmk" THEN [ev |-> "removekeyed", t |-> ls[i].t, k |-> ls[i].k]
                                          ELSE [ev |-> "noop"]).live, ls, i + 1)
ModulesTransparent == [][(hist' # hist /\ hist'[Len(hist')].op \in {"modules", "modulesagain"}) =>
                          rs'.live = Direct(rs.live, hist'[Len(hist')].leaves, 1)]_vars
=============================================================================
