----------------------------- MODULE ContainerMC -----------------------------
(***************************************************************************)
(* Exhaustive design model of the container + scenario generator.          *)
(*                                                                         *)
(* Reference (big-step) semantics of every API operation are written as    *)
(* operators that produce the EVENT SEQUENCE a correct container emits     *)
(* (call, constructor invocations in resolution order, instance closes,    *)
(* return).  The events are folded through Container!Apply while every     *)
(* guard of Container!Guards is evaluated: TLC checks, over all histories  *)
(* within the bounds, that the reference satisfies every guard (bad = {})  *)
(* and the state invariants below.  hist is the API-level operation        *)
(* sequence; Emit prints configuration + history for every transition:     *)
(* one replayable scenario per transition of the reference state graph.    *)
(***************************************************************************)
EXTENDS Container, ContainerCfgs, Json

CONSTANTS Cfgs,        \* set of configurations explored
          MaxOps,      \* bound on history length
          ScopeTree,   \* [name |-> parent] for the scopes that may be created ("prov" = provider)
          MaxTrans,    \* bound on transient resolutions per scope (keeps ids bounded)
          EmitOn

VARIABLES st, hist, bad
vars == <<st, hist, bad>>

NoneRes == [k |-> "none", ids |-> <<>>, s |-> NONE]
InstRes(ids) == [k |-> "inst", ids |-> ids, s |-> NONE]
ZeroArg == [k |-> "zero", ids |-> <<>>, s |-> NONE]

CallEv(op, sc, name, t, k, g) == [ev |-> "call", op |-> op, sc |-> sc, name |-> name, t |-> t, k |-> k, g |-> g]
RetEv(op, err, res) == [ev |-> "ret", op |-> op, err |-> err, panic |-> FALSE, res |-> res, path |-> <<>>, ctxok |-> TRUE]

\* accumulator threaded through the reference semantics: state + failed guards
Acc(s, b) == [st |-> s, bad |-> b]
Feed(a, e) == Acc(Apply(a.st, e), a.bad \cup {gd.name : gd \in {x \in Guards(a.st, e) : ~x.ok}})
RECURSIVE FeedAll(_, _)
FeedAll(a, es) == IF es = <<>> THEN a ELSE FeedAll(Feed(a, Head(es)), Tail(es))

NextId(s) == IF InstIds(s) = {} THEN 1 ELSE Max(InstIds(s)) + 1

FaultAt(cfg, reg, inv) ==
    LET fs == {i \in DOMAIN cfg.faults : cfg.faults[i].reg = reg /\ cfg.faults[i].at = inv}
    IN IF fs = {} THEN "ok" ELSE cfg.faults[CHOOSE i \in fs : TRUE].how

(***************************************************************************)
(* Reference resolution.  Results: [a (accumulator), ok, id] /             *)
(* [a, ok, args].  Parameters are resolved left to right; a failing        *)
(* required parameter aborts the construction.                             *)
(***************************************************************************)
RECURSIVE RefOut(_, _, _, _), RefConstruct(_, _, _), RefArgs(_, _, _, _, _), RefGroup(_, _, _, _, _)

RefOut(a, s, reg, out) ==
    LET life == LifeOf(a.st.cfg, reg) IN
    IF life = "singleton" /\ \E x \in a.st.sing : x[1] = reg /\ x[2] = out THEN
        [a |-> a, ok |-> TRUE, id |-> (CHOOSE x \in a.st.sing : x[1] = reg /\ x[2] = out)[3]]
    ELSE IF life = "scoped" /\ \E x \in a.st.cache : x[1] = s /\ x[2] = reg /\ x[3] = out THEN
        [a |-> a, ok |-> TRUE, id |-> (CHOOSE x \in a.st.cache : x[1] = s /\ x[2] = reg /\ x[3] = out)[4]]
    ELSE LET c == RefConstruct(a, s, reg)
         IN IF c.ok THEN [a |-> c.a, ok |-> TRUE, id |-> c.outs[out]] ELSE [a |-> c.a, ok |-> FALSE, id |-> 0]

RefGroup(a, s, ms, i, ids) ==
    IF i > Len(ms) THEN [a |-> a, ok |-> TRUE, ids |-> ids]
    ELSE LET r == RefOut(a, s, ms[i][1], ms[i][2])
         IN IF r.ok THEN RefGroup(r.a, s, ms, i + 1, Append(ids, r.id)) ELSE [a |-> r.a, ok |-> FALSE, ids |-> ids]

RefArgs(a, s, reg, j, args) ==
    LET r == Reg(a.st.cfg, reg) IN
    IF j > Len(r.params) THEN [a |-> a, ok |-> TRUE, args |-> args]
    ELSE
    LET p == r.params[j]
        es == IF r.life = "singleton" THEN "root" ELSE s
    IN
    IF IsBuiltin(p) THEN
        RefArgs(a, s, reg, j + 1, Append(args, [k |-> p.b, ids |-> <<>>, s |-> IF p.b = "prov" THEN NONE ELSE es]))
    ELSE IF IsGroupParam(p) THEN
        LET g == RefGroup(a, s, GroupMembers(a.st.cfg, p.t, p.g), 1, <<>>)
        IN IF g.ok THEN RefArgs(g.a, s, reg, j + 1, Append(args, InstRes(g.ids)))
           ELSE [a |-> g.a, ok |-> FALSE, args |-> args]
    ELSE IF HasProvider(a.st.cfg, p.t, p.k) THEN
        LET t == ProviderOf(a.st.cfg, p.t, p.k)
            o == RefOut(a, s, t[1], t[2])
        IN IF o.ok THEN RefArgs(o.a, s, reg, j + 1, Append(args, InstRes(<<o.id>>)))
           ELSE IF p.opt THEN RefArgs(o.a, s, reg, j + 1, Append(args, ZeroArg))
           ELSE [a |-> o.a, ok |-> FALSE, args |-> args]
    ELSE IF p.opt THEN RefArgs(a, s, reg, j + 1, Append(args, ZeroArg))
    ELSE [a |-> a, ok |-> FALSE, args |-> args]      \* required dependency nobody provides

RefConstruct(a, s, reg) ==
    LET r  == Reg(a.st.cfg, reg)
        ar == RefArgs(a, s, reg, 1, <<>>)
    IN
    IF ~ar.ok THEN [a |-> ar.a, ok |-> FALSE, outs |-> <<>>]
    ELSE
    LET inv  == ar.a.st.runs[reg] + 1
        how  == FaultAt(ar.a.st.cfg, reg, inv)
        n0   == NextId(ar.a.st)
        nOut == NOuts(r)
        \* "cancel": the constructor succeeds and cancels the context of the Build in progress.  The reference
        \* takes the verdict "Build completes" (no creation step follows in its order); the guards allow both.
        good == how \in {"ok", "cancel"}
        fout == IF how = "nil" /\ r.shape = "ifacerr" THEN "unil" ELSE how    \* an interface result can be an UNTYPED nil
        outs == IF ~good THEN <<>>
                ELSE IF Len(r.as) >= 2 THEN [i \in 1..nOut |-> n0]      \* one instance serves every alias
                ELSE [i \in 1..nOut |-> n0 + i - 1]
        e    == [ev |-> "ctor", reg |-> reg, inv |-> inv, scope |-> s, args |-> ar.args, outs |-> outs,
                 outcome |-> IF good THEN "ok" ELSE fout, ign |-> TRUE]
        a1   == Feed(ar.a, e)
        a2   == IF how = "cancel" /\ a1.st.cur.op = "build" THEN Feed(a1, [ev |-> "cancelbuild", reg |-> reg]) ELSE a1
    IN [a |-> a2, ok |-> good, outs |-> outs]

(***************************************************************************)
(* Disposal.  A scope's own instances in reverse creation order, after all *)
(* of its descendants; the provider: scopes, root scope, singletons.       *)
(***************************************************************************)
RECURSIVE SortByBornDesc(_, _)
SortByBornDesc(s, ids) ==
    IF ids = {} THEN <<>>
    ELSE LET m == CHOOSE i \in ids : \A j \in ids : s.inst[j].born < s.inst[i].born \/ (s.inst[j].born = s.inst[i].born /\ j <= i)
         IN <<m>> \o SortByBornDesc(s, ids \ {m})

CloseEvents(s, owner) ==
    LET ids == {i \in Disposables(s, {owner}) : s.inst[i].closed = 0}
        seq == SortByBornDesc(s, ids)
    IN [i \in DOMAIN seq |-> [ev |-> "close", inst |-> seq[i],
                              outcome |-> IF s.inst[seq[i]].reg \in Range(s.cfg.closeerr) THEN "err" ELSE "ok"]]

RECURSIVE ScopeCloseEvents(_, _), ChildrenCloseEvents(_, _)
Children(s, sc) == {x \in ScopeNames(s) : s.scopes[x].parent = sc /\ s.scopes[x].open}
ChildrenCloseEvents(s, cs) ==
    IF cs = {} THEN <<>>
    ELSE LET c == CHOOSE x \in cs : TRUE IN ScopeCloseEvents(s, c) \o ChildrenCloseEvents(s, cs \ {c})
ScopeCloseEvents(s, sc) ==
    IF ~IsOpen(s, sc) THEN <<>> ELSE ChildrenCloseEvents(s, Children(s, sc)) \o CloseEvents(s, sc)

HasErr(es) == \E i \in DOMAIN es : es[i].outcome = "err"
DisposalErr(es) == IF HasErr(es) THEN <<"disposal">> ELSE <<>>

(***************************************************************************)
(* API operations of the reference.                                        *)
(***************************************************************************)
FailErr(a) == IF a.st.cur.failed = "err" THEN <<"ctorError", "cause">>
              ELSE IF a.st.cur.failed = "panic" THEN <<"ctorPanic", "panicval">>
              ELSE IF a.st.cur.failed = "unil" THEN <<"validation">>
              ELSE <<"notfound">>

\* eager construction: singletons in a dependencies-first order, then root-scope initializers
RECURSIVE RefEager(_, _)
Ready(a, id) == \A d \in DepsOfReg(a.st.cfg, id) : LifeOf(a.st.cfg, d) = "singleton" => <<d, "prov">> \in a.st.okruns
RefEager(a, todo) ==
    IF todo = {} THEN [a |-> a, ok |-> TRUE]
    ELSE LET cands == {id \in todo : LifeOf(a.st.cfg, id) = "singleton" /\ Ready(a, id)}
             inits == {id \in todo : LifeOf(a.st.cfg, id) # "singleton"}
             pick  == IF cands # {} THEN CHOOSE id \in cands : TRUE ELSE CHOOSE id \in inits : TRUE
             done  == LifeOf(a.st.cfg, pick) = "singleton" /\ <<pick, "prov">> \in a.st.okruns
             c     == IF done THEN [a |-> a, ok |-> TRUE] ELSE RefConstruct(a, "root", pick)
         IN IF c.ok THEN RefEager(c.a, todo \ {pick}) ELSE [a |-> c.a, ok |-> FALSE]

CyclePathOf(cfg) ==     \* some real cycle, as identities (group members and group nodes included)
    LET outs  == {OutsOf(cfg.regs[q[1]])[q[2]] : q \in OutPairs(cfg)}
        plain == {o \in outs : o.g = NONE}
        grps  == {[t |-> o.t, g |-> o.g] : o \in {x \in outs : x.g # NONE}}
        membs == UNION {{Ident(gr.t, MemberKey(i), gr.g) : i \in DOMAIN GroupMembers(cfg, gr.t, gr.g)} : gr \in grps}
        gnode == {Ident(gr.t, NONE, gr.g) : gr \in grps}
        nodes == plain \cup membs \cup gnode
        cands == UNION {[1..n -> nodes] : n \in 1..4}
    IN IF \E p \in cands : IsRealCycle(cfg, p) THEN CHOOSE p \in cands : IsRealCycle(cfg, p) ELSE <<>>

RefBuild(s) ==
    LET cfg == s.cfg
        a0  == Feed(Acc(s, {}), CallEv("build", NONE, NONE, NONE, NONE, NONE))
    IN
    IF Cyclic(cfg) THEN Feed(a0, [RetEv("build", <<"circular", "build">>, NoneRes) EXCEPT !.path = CyclePathOf(cfg)])
    ELSE IF Conflict(cfg) THEN Feed(a0, RetEv("build", <<"lifetimeConflict", "build">>, NoneRes))
    ELSE IF Missing(cfg) THEN Feed(a0, RetEv("build", <<"notfound", "build">>, NoneRes))
    ELSE LET eager == {id \in LiveRegIds(cfg) : (LifeOf(cfg, id) = "singleton" /\ Reg(cfg, id).shape \notin {"inst", "instv"})
                                             \/ (LifeOf(cfg, id) = "scoped" /\ IsInit(Reg(cfg, id)))}
             ivs == SetToSeq({i \in DOMAIN cfg.regs : cfg.regs[i].shape \in {"inst", "instv"}})
             ai  == FeedAll(a0, [j \in DOMAIN ivs |-> [ev |-> "inst", reg |-> cfg.regs[ivs[j]].id, id |-> j]])
             r == RefEager(ai, eager)
         IN IF r.ok THEN Feed(r.a, RetEv("build", <<>>, NoneRes))
            ELSE LET es == CloseEvents(r.a.st, "root")
                     a1 == FeedAll(r.a, es)
                     es2 == CloseEvents(a1.st, "prov")
                     a2 == FeedAll(a1, es2)
                 IN Feed(a2, RetEv("build", FailErr(r.a) \o <<"build">>, NoneRes))

RECURSIVE RefInits(_, _, _)
RefInits(a, s, todo) ==
    IF todo = {} THEN [a |-> a, ok |-> TRUE]
    ELSE LET pick == CHOOSE id \in todo : TRUE
             c == RefConstruct(a, s, pick)
         IN IF c.ok THEN RefInits(c.a, s, todo \ {pick}) ELSE [a |-> c.a, ok |-> FALSE]

RefCreate(s, parent, name) ==
    LET a0 == Feed(Acc(s, {}), CallEv("create", parent, name, NONE, NONE, NONE))
        ps == ScopeOfCall(parent)
    IN
    IF parent = "prov" /\ s.phase # "built" THEN Feed(a0, RetEv("create", <<"providerDisposed">>, NoneRes))
    ELSE IF ~IsOpen(s, ps) THEN Feed(a0, RetEv("create", <<"scopeDisposed">>, NoneRes))
    ELSE LET inits == {id \in LiveRegIds(s.cfg) : LifeOf(s.cfg, id) = "scoped" /\ IsInit(Reg(s.cfg, id))}
             r == RefInits(a0, name, inits)
         IN IF r.ok THEN Feed(r.a, RetEv("create", <<>>, NoneRes))
            ELSE LET es == CloseEvents(r.a.st, name)
                 IN Feed(FeedAll(r.a, es), RetEv("create", FailErr(r.a), NoneRes))

RefResolve(s, sc, t, k) ==
    LET a0 == Feed(Acc(s, {}), CallEv("resolve", sc, NONE, t, k, NONE))
        ss == ScopeOfCall(sc)
    IN
    IF sc = "prov" /\ s.phase # "built" THEN Feed(a0, RetEv("resolve", <<"providerDisposed">>, NoneRes))
    ELSE IF ~IsOpen(s, ss) THEN Feed(a0, RetEv("resolve", <<"scopeDisposed">>, NoneRes))
    ELSE IF t \in Builtins /\ k = NONE THEN
        Feed(a0, RetEv("resolve", <<>>, [k |-> t, ids |-> <<>>, s |-> IF t = "prov" THEN NONE ELSE ss]))
    ELSE IF t = "V" THEN
        (IF VoidRegs(s.cfg, k) # {} THEN
            LET id == CHOOSE x \in VoidRegs(s.cfg, k) : TRUE
                c  == IF LifeOf(s.cfg, id) = "transient" THEN RefConstruct(a0, ss, id) ELSE [a |-> a0, ok |-> TRUE]
            IN IF c.ok THEN Feed(c.a, RetEv("resolve", <<>>, [k |-> "void", ids |-> <<>>, s |-> NONE]))
               ELSE Feed(c.a, RetEv("resolve", FailErr(c.a), NoneRes))
         ELSE Feed(a0, RetEv("resolve", <<"notfound", "resolution">>, NoneRes)))
    ELSE IF ~HasProvider(s.cfg, t, k) THEN Feed(a0, RetEv("resolve", <<"notfound", "resolution">>, NoneRes))
    ELSE LET p == ProviderOf(s.cfg, t, k)
             r == RefOut(a0, ss, p[1], p[2])
         IN IF r.ok THEN Feed(r.a, RetEv("resolve", <<>>, InstRes(<<r.id>>)))
            ELSE Feed(r.a, RetEv("resolve", FailErr(r.a), NoneRes))

RefGroupOp(s, sc, t, g) ==
    LET a0 == Feed(Acc(s, {}), CallEv("group", sc, NONE, t, NONE, g))
        ss == ScopeOfCall(sc)
    IN
    IF sc = "prov" /\ s.phase # "built" THEN Feed(a0, RetEv("group", <<"providerDisposed">>, NoneRes))
    ELSE IF ~IsOpen(s, ss) THEN Feed(a0, RetEv("group", <<"scopeDisposed">>, NoneRes))
    ELSE LET r == RefGroup(a0, ss, GroupMembers(s.cfg, t, g), 1, <<>>)
         IN IF r.ok THEN Feed(r.a, RetEv("group", <<>>, InstRes(r.ids)))
            ELSE Feed(r.a, RetEv("group", FailErr(r.a), NoneRes))

RefClose(s, op, sc) ==
    LET a0 == Feed(Acc(s, {}), CallEv(op, sc, NONE, NONE, NONE, NONE))
        es == ScopeCloseEvents(s, sc)
    IN Feed(FeedAll(a0, es), RetEv(op, IF op = "cancel" THEN <<>> ELSE DisposalErr(es), NoneRes))   \* the automatic close has no caller to report to

RefCloseProv(s) ==
    LET a0 == Feed(Acc(s, {}), CallEv("closeprov", NONE, NONE, NONE, NONE, NONE))
    IN IF s.phase # "built" THEN Feed(a0, RetEv("closeprov", <<>>, NoneRes))
       ELSE LET tops == {x \in ScopeNames(s) : s.scopes[x].parent = "root" /\ s.scopes[x].open}
                es1 == ChildrenCloseEvents(s, tops) \o CloseEvents(s, "root")
                a1  == FeedAll(a0, es1)
                es2 == CloseEvents(a1.st, "prov")
            IN Feed(FeedAll(a1, es2), RetEv("closeprov", DisposalErr(es1 \o es2), NoneRes))

(***************************************************************************)
(* The transition system.                                                  *)
(***************************************************************************)
Init == /\ \E c \in Cfgs : st = InitState(c)
        /\ hist = <<>>
        /\ bad = {}

Do(a, op) == /\ st' = a.st
             /\ bad' = bad \cup a.bad
             /\ hist' = Append(hist, op)

Room == Len(hist) < MaxOps
\* which context a scope is created with follows from its name: scopes created on the provider get a fresh
\* cancellable context carrying a value ("val"); nested scopes named d* get a context DERIVED from the parent
\* scope's context with a cancel function of its own ("der"); other nested scopes get none ("nil")
IsDer(n) == n \in {"d1", "d2", "d3"}
OpRec(op, sc, name, t, k, g) == [op |-> op, sc |-> sc, name |-> name,
                                 ctx |-> (IF sc = "prov" THEN "val" ELSE IF IsDer(name) THEN "der" ELSE "nil"),
                                 t |-> t, k |-> k, g |-> g]

Targets == {"prov"} \cup (ScopeNames(st) \ {"root"})

Build == /\ st.phase = "new"
         /\ Do(RefBuild(st), OpRec("build", NONE, NONE, NONE, NONE, NONE))

Create == /\ Room /\ st.phase \in {"built", "closed"}
          /\ \E n \in DOMAIN ScopeTree :
               /\ n \notin ScopeNames(st)
               /\ OwnedBy(st, {n}) = {} /\ \A x \in st.okruns : x[2] # n    \* a name is used for one scope only
               /\ ScopeTree[n] \in Targets
               /\ Do(RefCreate(st, ScopeTree[n], n), OpRec("create", ScopeTree[n], n, NONE, NONE, NONE))

Identities == {[t |-> o.t, k |-> o.k] : o \in {OutsOf(st.cfg.regs[q[1]])[q[2]] : q \in OutPairs(st.cfg)}}
GroupIds == {[t |-> o.t, g |-> o.g] : o \in {x \in {OutsOf(st.cfg.regs[q[1]])[q[2]] : q \in OutPairs(st.cfg)} : x.g # NONE}}

TransCount(sc) == Cardinality({i \in InstIds(st) : st.inst[i].life = "transient" /\ st.inst[i].owner = ScopeOfCall(sc)})

\* named initialization functions (live or removed) are resolvable identities ("V", name) too
VoidIdentities == {[t |-> "V", k |-> st.cfg.regs[i].name] : i \in {j \in DOMAIN st.cfg.regs : IsInit(st.cfg.regs[j]) /\ st.cfg.regs[j].name # NONE}}
\* the built-in types requested WITH a key: only the unkeyed request is a built-in (in configurations that use them)
UsesBuiltins == \E i \in DOMAIN st.cfg.regs : \E j \in DOMAIN st.cfg.regs[i].params : st.cfg.regs[i].params[j].b # NONE
KeyedBuiltins == IF UsesBuiltins THEN {[t |-> b, k |-> "k"] : b \in Builtins} ELSE {}
Resolve == /\ Room /\ st.phase \in {"built", "closed"}
           /\ \E sc \in Targets : \E i \in Identities \cup VoidIdentities \cup KeyedBuiltins :
                /\ TransCount(sc) < MaxTrans
                /\ (HasProvider(st.cfg, i.t, i.k) \/ i.t = "V" \/ i.t \in Builtins)
                /\ Do(RefResolve(st, sc, i.t, i.k), OpRec("resolve", sc, NONE, i.t, i.k, NONE))

\* a group nobody is a member of: an empty slice from an open scope, the disposed error from a closed one
EmptyGroupIds == {[t |-> "S3", g |-> "nog"]}
ResolveGroup == /\ Room /\ st.phase \in {"built", "closed"}
                /\ \E sc \in Targets : \E gi \in GroupIds \cup EmptyGroupIds :
                     /\ TransCount(sc) < MaxTrans
                     /\ Do(RefGroupOp(st, sc, gi.t, gi.g), OpRec("group", sc, NONE, gi.t, NONE, gi.g))

Close == /\ Room /\ st.phase \in {"built", "closed"}
         /\ \E sc \in ScopeNames(st) \ {"root"} : Do(RefClose(st, "close", sc), OpRec("close", sc, NONE, NONE, NONE, NONE))

Cancel == /\ Room /\ st.phase = "built"
          /\ \E sc \in ScopeNames(st) \ {"root"} :
               /\ IsOpen(st, sc) /\ (st.scopes[sc].parent = "root" \/ IsDer(sc)) /\ Children(st, sc) = {}
               /\ Do(RefClose(st, "cancel", sc), OpRec("cancel", sc, NONE, NONE, NONE, NONE))

CloseProv == /\ Room /\ st.phase \in {"built", "closed"}
             /\ Do(RefCloseProv(st), OpRec("closeprov", NONE, NONE, NONE, NONE, NONE))

Next == Build \/ Create \/ Resolve \/ ResolveGroup \/ Close \/ Cancel \/ CloseProv
Spec == Init /\ [][Next]_vars

View == [phase  |-> st.phase, scopes |-> st.scopes, cid |-> st.cfg.cid,
         insts  |-> {<<st.inst[i].reg, st.inst[i].out, st.inst[i].owner, st.inst[i].closed>> : i \in InstIds(st)},
         cached |-> {<<c[1], c[2], c[3]>> : c \in st.cache},
         \* how often the constructors with a scripted fault have run: a retry after a failure is a different state
         faulted |-> [i \in DOMAIN st.cfg.faults |-> st.runs[st.cfg.faults[i].reg]],
         n      |-> Len(hist)]

\* finer view: also remembers the previous operation, so that every pair (previous operation, next operation) is
\* explored from every abstract state (what failed first matters to an implementation even where the reference
\* state is the same)
View1 == [v |-> View, last |-> IF hist = <<>> THEN <<>> ELSE <<hist[Len(hist)]>>]

Emit == IF EmitOn THEN PrintT(<<"SCN", ToJson([cfg |-> st.cfg, ops |-> hist'])>>) ELSE TRUE

(***************************************************************************)
(* Properties of the design.                                               *)
(***************************************************************************)
\* the reference satisfies every guard the traces of the implementation are judged by
GuardsHold == bad = {}

Inv_C01 == st.phase = "built" =>
    \A id \in RegIds(st.cfg) : (LifeOf(st.cfg, id) = "singleton" /\ Reg(st.cfg, id).shape \notin {"inst", "instv"}) =>
        /\ st.runs[id] = (IF LiveReg(st.cfg, id) THEN 1 ELSE 0)
        /\ \A o \in 1..NOuts(Reg(st.cfg, id)) : Cardinality({x \in st.sing : x[1] = id /\ x[2] = o}) =
                                                  (IF o \in Rm(Reg(st.cfg, id)) THEN 0 ELSE 1)
Act_C01 == [][st.phase = "built" /\ st'.phase = "built" =>
               \A id \in RegIds(st.cfg) : LifeOf(st.cfg, id) = "singleton" => st'.runs[id] = st.runs[id]]_vars

\* at most one instance per (scope, scoped output); caches of different scopes are disjoint
Inv_C02 == /\ \A x, y \in st.cache : (x[1] = y[1] /\ x[2] = y[2] /\ x[3] = y[3]) => x[4] = y[4]
           /\ \A x, y \in st.cache : x[4] = y[4] => x[1] = y[1]

\* between calls every constructed transient has been consumed
Inv_C03 == st.cur.op = NONE => st.fresh = {}

\* nothing that is not scoped was ever constructed from a scoped instance: by GuardsHold (no_captive_scoped)
\* plus: Build never accepts a conflicting configuration
Inv_C07 == st.phase = "built" => ~Conflict(st.cfg)
Inv_C05 == st.phase = "built" => ~Cyclic(st.cfg)
Inv_C08 == st.phase = "built" => ~Missing(st.cfg)

\* closed means closed exactly once, and everything owned by a closed owner is closed
Inv_C10 == /\ \A i \in InstIds(st) : st.inst[i].closed <= 1
           /\ \A i \in InstIds(st) : (st.inst[i].disp /\ st.inst[i].owner \in ScopeNames(st) /\ ~IsOpen(st, st.inst[i].owner)
                                       /\ st.cur.op = NONE) => st.inst[i].closed = 1
           /\ st.phase = "closed" => \A i \in InstIds(st) : st.inst[i].disp => st.inst[i].closed = 1
           /\ \A i \in InstIds(st) : (st.inst[i].closed = 1 /\ st.inst[i].owner = "prov") => st.phase \in {"closed", "failed"}

\* a closed scope has only closed descendants
Inv_C13 == \A s \in ScopeNames(st) : ~IsOpen(st, s) => \A d \in Subtree(st, s) : ~IsOpen(st, d)
=============================================================================
