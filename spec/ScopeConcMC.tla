---------------------------- MODULE ScopeConcMC ----------------------------
(* Programs (operation mixes) for the exhaustive exploration of ScopeConc    *)
(* and emission of schedules: for every transition the program and the       *)
(* sequence of <<process, gate label>> steps reaching it.                    *)
EXTENDS ScopeConc, Json

CONSTANTS MixSet, EmitOn

Op(op, s, k) == [op |-> op, s |-> s, k |-> k]
Menu == {Op("get", "s1", "A"), Op("get", "s2", "A"), Op("get", "s1", "B"), Op("get", "s1", "T"), Op("get", "s2", "T"),
         Op("get", "s1", "S"), Op("pget", "root", "A"), Op("pget", "root", "T"),
         Op("create", "s1", NONE), Op("create", "s2", NONE), Op("create", "prov", NONE),
         Op("close", "s1", NONE), Op("close", "s2", NONE), Op("pclose", "prov", NONE), Op("cancel", "s1", NONE)}
Closers == {Op("close", "s1", NONE), Op("close", "s2", NONE), Op("pclose", "prov", NONE), Op("cancel", "s1", NONE)}
Users == Menu \ Closers

\* every unordered pair (t1's op <= t2's op in some fixed order is not needed: symmetric programs only add states)
PairMixes == {[t \in Threads |-> IF t = "t1" THEN a ELSE b] : a \in Menu, b \in Menu}
\* one closer against one in-flight user operation
OverlapMixes == {[t \in Threads |-> IF t = "t1" THEN a ELSE b] : a \in Closers, b \in Users}
\* quick subset
QuickMixes == {[t \in Threads |-> IF t = "t1" THEN a ELSE b] :
                  a \in {Op("close", "s1", NONE), Op("pclose", "prov", NONE), Op("cancel", "s1", NONE), Op("get", "s1", "A")},
                  b \in {Op("get", "s1", "A"), Op("get", "s2", "T"), Op("create", "s1", NONE), Op("close", "s2", NONE), Op("close", "s1", NONE)}}
\* concurrent resolutions only (single flight, lifetimes under concurrency)
GetMixes == {[t \in Threads |-> IF t = "t1" THEN a ELSE b] :
                a \in {Op("get", "s1", "A"), Op("get", "s1", "B"), Op("pget", "root", "A")},
                b \in {Op("get", "s1", "A"), Op("get", "s1", "B"), Op("get", "s2", "A"), Op("get", "s1", "T"), Op("pget", "root", "A"), Op("get", "s1", "S")}}
\* aliases and multiple results of one scoped constructor resolved concurrently, alone and against a closer
SharedMixes == {[t \in Threads |-> IF t = "t1" THEN a ELSE b] :
                   a \in {Op("get", "s1", "I"), Op("get", "s1", "M"), Op("close", "s1", NONE)},
                   b \in {Op("get", "s1", "I"), Op("get", "s1", "J"), Op("get", "s1", "M"), Op("get", "s1", "N")}}
\* closers against closers (idempotence, cascade, cancellation)
CloseMixes == {[t \in Threads |-> IF t = "t1" THEN a ELSE b] : a \in Closers, b \in Closers}
\* three threads: two users and a closer
TripleMixes == {[t \in Threads |-> IF t = "t1" THEN a ELSE IF t = "t2" THEN b ELSE c] :
                  a \in {Op("get", "s1", "A"), Op("get", "s1", "T"), Op("create", "s1", NONE)},
                  b \in {Op("get", "s1", "A"), Op("get", "s1", "B"), Op("get", "s2", "A")},
                  c \in {Op("close", "s1", NONE), Op("pclose", "prov", NONE), Op("cancel", "s1", NONE)}}

\* two closers and a user: a Close that loses the race returns while the winner is still disposing - the scope
\* itself refuses from then on (cached instances included)
TwoClosersQuick == {[t \in Threads |-> IF t = "t1" THEN Op("close", "s1", NONE) ELSE IF t = "t2" THEN b ELSE Op("get", "s1", "A")] :
                       b \in {Op("close", "s1", NONE), Op("pclose", "prov", NONE)}}
TwoClosersMixes == {[t \in Threads |-> IF t = "t1" THEN a ELSE IF t = "t2" THEN b ELSE c] :
                       a \in {Op("close", "s1", NONE), Op("cancel", "s1", NONE), Op("pclose", "prov", NONE)},
                       b \in {Op("close", "s1", NONE), Op("pclose", "prov", NONE), Op("close", "s2", NONE)},
                       c \in {Op("get", "s1", "A"), Op("get", "s2", "A"), Op("get", "s1", "T"), Op("create", "s1", NONE)}}

\* a parent WITHOUT children (InitScopes = {s1}) closed while a child is being created on it
ChildlessMixes == {[t \in Threads |-> IF t = "t1" THEN a ELSE b] :
                      a \in {Op("close", "s1", NONE), Op("pclose", "prov", NONE), Op("cancel", "s1", NONE)},
                      b \in {Op("create", "s1", NONE), Op("get", "s1", "A")}}

\* three goroutines asking one scope for the same scoped service
TripleGetMixes == {[t \in Threads |-> Op("get", "s1", "A")]}

\* scopes created on the PROVIDER (and on a scope) while the provider or that scope is being closed
ProvCreateMixes == {[t \in Threads |-> IF t = "t1" THEN a ELSE b] :
                       a \in {Op("pclose", "prov", NONE), Op("close", "s1", NONE)},
                       b \in {Op("create", "prov", NONE), Op("create", "s1", NONE)}}

\* a tree three levels deep (s1 - s2 - s3, every level holding instances): the Close of the middle scope overlapping the
\* Close of the top one, and a user of the grandchild
DeepMixes == {[t \in Threads |-> IF t = "t1" THEN Op("close", "s2", NONE) ELSE IF t = "t2" THEN b ELSE c] :
                 b \in {Op("close", "s1", NONE)},
                 c \in {Op("get", "s3", "A")}}
DeepCloseMixes == {[t \in Threads |-> IF t = "t1" THEN Op("close", "s2", NONE) ELSE b] :
                 b \in {Op("close", "s1", NONE), Op("pclose", "prov", NONE), Op("cancel", "s1", NONE), Op("close", "s3", NONE)}}
\* two resolutions of one scoped service (one constructs, the other waits for it) and a Close of their scope that runs
\* through while the construction is in flight: the waiter is woken and refused, never left waiting
WaiterCloseMixes == {[t \in Threads |-> IF t = "t3" THEN c ELSE Op("get", "s1", "A")] :
                        c \in {Op("close", "s1", NONE), Op("pclose", "prov", NONE), Op("cancel", "s1", NONE)}}
WaiterCloseQuick == {[t \in Threads |-> IF t = "t3" THEN Op("close", "s1", NONE) ELSE Op("get", "s1", "A")]}
PreDeep == {<<"s1", "B">>, <<"s1", "A">>, <<"s2", "B">>, <<"s3", "B">>, <<"s3", "A">>}
PreNone == {}
PreAB == {<<"s1", "B">>, <<"s1", "A">>, <<"s2", "B">>, <<"s2", "A">>}
PreS1 == {<<"s1", "B">>, <<"s1", "A">>}
PreS2 == {<<"s2", "B">>, <<"s2", "A">>}

View == <<svars, pvars, stack, result, wstate, gvars, ops>>
NoRev(h) == \A i \in DOMAIN h : h[i][3] # "rev"
Emit == IF EmitOn /\ hist' # hist /\ NoRev(hist') THEN PrintT(<<"SCN", ToJson([ops |-> ops, sched |-> hist'])>>) ELSE TRUE
=============================================================================
