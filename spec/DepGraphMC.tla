----------------------------- MODULE DepGraphMC -----------------------------
(* Exhaustive design model of DepGraph + scenario generator.               *)
(* hist records the actions taken; it is hidden from the fingerprint by    *)
(* VIEW, so every reachable graph state is kept once, together with one    *)
(* action path that reaches it.  The ACTION_CONSTRAINT Emit prints, for    *)
(* EVERY generated transition, path-to-pre-state + action: one replayable  *)
(* scenario per transition of the reference state graph.                   *)
EXTENDS DepGraph, Json

CONSTANTS MaxDeps, EmitOn, EmitMin

VARIABLES g, hist, gobs
vars == <<g, hist, gobs>>
View == g
\* gobs is the graph as it was when the component last answered queries (every completed, i.e.
\* non-pending, point is observed by the harness).  The reference has no caches, so gobs adds no
\* behaviour; keeping it in the fingerprint makes TLC keep one path per (last answered graph, deferred
\* changes since) pair, which is what a stale cached answer in the implementation depends on.
View2 == <<g, gobs>>

DepLists == UNION {[1..k -> Nodes] : k \in 0..MaxDeps}

Init == g = EmptyGraph /\ hist = <<>> /\ gobs = EmptyGraph

Do(e) == /\ g' = GApply(g, e) /\ hist' = Append(hist, e)
         /\ gobs' = IF GApply(g, e).pending THEN gobs ELSE GApply(g, e)

AddImm   == \E n \in Nodes, ds \in DepLists :
               /\ Acyclic(g)      \* immediate adds are only specified on acyclic graphs
               /\ Do([ev |-> "add", n |-> n, ds |-> ds,
                      res |-> IF AddRejected(g, n, ds) THEN "cycle" ELSE "ok"])
AddDef   == \E n \in Nodes, ds \in DepLists : Do([ev |-> "addd", n |-> n, ds |-> ds])
Detect   == g.pending /\ Do([ev |-> "detect"])
Remove   == \E n \in Nodes : Do([ev |-> "remove", n |-> n])
Clear    == g.present # {} /\ Do([ev |-> "clear"])

Next == AddImm \/ AddDef \/ Detect \/ Remove \/ Clear

Spec == Init /\ [][Next]_vars

Emit == IF EmitOn /\ Len(hist') >= EmitMin THEN PrintT(<<"SCN", ToJson(hist')>>) ELSE TRUE

--------------------------------------------------------------------------
(* design-level properties of the reference itself *)
TypeOK == GraphOK(g)

Perms(S) == {f \in [1..Cardinality(S) -> S] : \A i, j \in DOMAIN f : i # j => f[i] # f[j]}

\* a topological order exists exactly for the acyclic graphs
TopoIffAcyclic == Acyclic(g) <=> \E o \in Perms(g.present) : IsTopo(g, o)

\* every node that is on a cycle has a cycle path through it that IsCycle accepts
CycleWitness == Cyclic(g) => \E k \in 1..Cardinality(g.present) :
                    \E p \in [1..k -> g.present] : IsCycle(g, p)

\* a rejected immediate add leaves the graph untouched; an accepted one keeps it acyclic
AddAtomic == [][\A i \in 1..1 : (hist' # hist /\ hist'[Len(hist')].ev = "add") =>
                 /\ Acyclic(g')
                 /\ (hist'[Len(hist')].res = "cycle" =>
                        /\ g'.present = g.present /\ g'.deps = g.deps /\ g'.prov = g.prov)]_vars

\* after remove nothing mentions the node
RemoveClean == [][\A i \in 1..1 : (hist' # hist /\ hist'[Len(hist')].ev = "remove") =>
                 LET n == hist'[Len(hist')].n
                 IN n \notin g'.present /\ \A m \in Nodes : n \notin Range(g'.deps[m])]_vars
=============================================================================
