------------------------------ MODULE Middleware ------------------------------
(***************************************************************************)
(* Per-request life cycle of the five web integrations (C16).  A scenario  *)
(* is a configuration cfg (framework, number of configured middlewares and *)
(* which one fails, handler kind, Handle options, whether the scope        *)
(* middleware is installed, whether the provider is already closed) and a  *)
(* batch of concurrent requests.  Each request is a record; events are     *)
(* applied by MApply and judged by MGuards, as in the other modules.       *)
(***************************************************************************)
EXTENDS Naturals, Sequences, FiniteSets, TLC

NONE == "-"
Range(s) == {s[i] : i \in DOMAIN s}

NewReq == [scope |-> NONE, probe |-> 0, mws |-> 0, handler |-> FALSE, method |-> FALSE, errhs |-> <<>>, closed |-> 0,
           probeClosed |-> 0, done |-> FALSE]

\* ---- what the configuration determines -------------------------------------------------------
HasScope(cfg) == cfg.scopemw /\ ~cfg.provclosed
MwsRun(cfg) == IF ~HasScope(cfg) THEN 0 ELSE IF cfg.mwfail > 0 THEN cfg.mwfail ELSE cfg.nmw
ReachesHandler(cfg) == ~cfg.scopemw \/ (HasScope(cfg) /\ cfg.mwfail = 0)
IsHandle(cfg) == cfg.handler = "handle"
MethodRuns(cfg) == IsHandle(cfg) /\ ReachesHandler(cfg) /\ HasScope(cfg) /\ cfg.registered
\* the scope middleware's DEFAULT error handler is in use (none configured): it cannot be observed, only its effects
\* (the handler does not run, the response is a 500)
DefaultEH(cfg) == "defeh" \in DOMAIN cfg /\ cfg.defeh
\* (gin) the configured error handler does not abort the chain: after a middleware error the Handle route still
\* runs, with a request scope that is already closed - the controller cannot be resolved from it
NoAbort(cfg) == "noabort" \in DOMAIN cfg /\ cfg.noabort
\* the failing configured middleware PANICS instead of returning an error: nothing of the integration swallows it, no error
\* handler is involved, the handler is not reached - and the request scope is closed like on every other exit path
MwPanic(cfg) == "mwpanic" \in DOMAIN cfg /\ cfg.mwpanic
ExpectedErrHandlers(cfg) ==
    IF cfg.scopemw /\ cfg.provclosed THEN (IF DefaultEH(cfg) THEN <<>> ELSE <<"scope">>)
    ELSE IF HasScope(cfg) /\ cfg.mwfail > 0 /\ MwPanic(cfg) THEN <<>>
    ELSE IF HasScope(cfg) /\ cfg.mwfail > 0 /\ NoAbort(cfg) THEN <<"mw", "handle_resolve">>
    ELSE IF HasScope(cfg) /\ cfg.mwfail > 0 THEN (IF DefaultEH(cfg) THEN <<>> ELSE <<"mw">>)
    ELSE IF IsHandle(cfg) /\ ~cfg.scopemw THEN <<"handle_scope">>
    ELSE IF IsHandle(cfg) /\ ~cfg.registered THEN <<"handle_resolve">>
    ELSE IF MethodRuns(cfg) /\ cfg.method = "panic" /\ cfg.recovery THEN <<"panic">>
    ELSE <<>>
PanicEscapes(cfg) ==
    \/ (HasScope(cfg) /\ cfg.mwfail > 0 /\ MwPanic(cfg))
    \/ (~IsHandle(cfg) /\ ReachesHandler(cfg) /\ cfg.handler = "panic")
    \/ (MethodRuns(cfg) /\ cfg.method = "panic" /\ ~cfg.recovery)

\* ---- state: cfg + requests -------------------------------------------------------------------
\* outer: the scope the incoming request context already carries (an application-level scope), if any
MInit(cfg) == [cfg |-> cfg, reqs |-> <<>>, outer |-> IF "outer" \in DOMAIN cfg /\ cfg.outer THEN "app" ELSE NONE,
               closeerrs |-> 0]        \* calls of the configured close-error handler so far
CloseFails(cfg) == "closefail" \in DOMAIN cfg /\ cfg.closefail    \* the scoped instance's Close returns an error
ReqIds(ms) == DOMAIN ms.reqs
OwnerOfScope(ms, sid) == {r \in ReqIds(ms) : ms.reqs[r].scope = sid}

SeeScope(rq, sid, pid) == [rq EXCEPT !.scope = IF @ = NONE THEN sid ELSE @, !.probe = IF @ = 0 THEN pid ELSE @]

MApply(ms, e) ==
    IF e.ev = "outer" THEN [ms EXCEPT !.outer = e.scope]
    ELSE IF e.ev = "req" THEN [ms EXCEPT !.reqs = (e.rq :> NewReq) @@ @]
    ELSE IF e.ev = "mw" /\ e.rq \in ReqIds(ms) THEN
        [ms EXCEPT !.reqs = [@ EXCEPT ![e.rq] = [SeeScope(@, e.scope, e.probe) EXCEPT !.mws = e.i]]]
    ELSE IF e.ev = "handler" /\ e.rq \in ReqIds(ms) THEN
        [ms EXCEPT !.reqs = [@ EXCEPT ![e.rq] = [SeeScope(@, e.scope, e.probe) EXCEPT !.handler = TRUE]]]
    ELSE IF e.ev = "method" /\ e.rq \in ReqIds(ms) THEN
        [ms EXCEPT !.reqs = [@ EXCEPT ![e.rq] = [SeeScope(@, e.scope, e.probe) EXCEPT !.method = TRUE]]]
    ELSE IF e.ev = "errh" /\ e.rq \in ReqIds(ms) THEN
        [ms EXCEPT !.reqs = [@ EXCEPT ![e.rq] = [@ EXCEPT !.errhs = Append(@, e.kind)]]]
    ELSE IF e.ev = "scope_closed" THEN
        [ms EXCEPT !.reqs = [r \in ReqIds(ms) |-> IF ms.reqs[r].scope = e.scope THEN [ms.reqs[r] EXCEPT !.closed = @ + 1] ELSE ms.reqs[r]]]
    ELSE IF e.ev = "probe_close" THEN
        [ms EXCEPT !.reqs = [r \in ReqIds(ms) |-> IF ms.reqs[r].probe = e.probe THEN [ms.reqs[r] EXCEPT !.probeClosed = @ + 1] ELSE ms.reqs[r]]]
    ELSE IF e.ev = "closeerrh" THEN [ms EXCEPT !.closeerrs = @ + 1]
    ELSE IF e.ev = "done" /\ e.rq \in ReqIds(ms) THEN
        [ms EXCEPT !.reqs = [@ EXCEPT ![e.rq] = [@ EXCEPT !.done = TRUE]]]
    ELSE ms

\* ---- guards ------------------------------------------------------------------------------------
MG(name, ok) == [name |-> name, tags |-> {"C16"}, ok |-> ok, kf |-> NONE]
\* behaviour the specification describes but no listed property states: evaluated on the reference (design model)
\* and counted on traces, never a violation of a property (the tag set is empty)
MGI(name, ok) == [name |-> name, tags |-> {}, ok |-> ok, kf |-> NONE]

\* what every callback of a request must see: the request's one scope, nobody else's, still open
SeesOwnScope(ms, e) ==
    LET rq == ms.reqs[e.rq] IN
    /\ e.scope # NONE /\ e.probe # 0
    /\ e.scope # ms.outer                                      \* a fresh scope, not one the request arrived with
    /\ (rq.scope = NONE \/ rq.scope = e.scope)
    /\ (rq.probe = 0 \/ rq.probe = e.probe)                     \* one scoped instance per request
    /\ \A r \in ReqIds(ms) \ {e.rq} : ms.reqs[r].scope # e.scope /\ ms.reqs[r].probe # e.probe
    /\ rq.closed = 0 /\ rq.probeClosed = 0

MGuards(ms, e) ==
    LET cfg == ms.cfg IN
    IF e.ev \in {"mw", "handler", "method", "errh", "done"} /\ e.rq \notin ReqIds(ms) THEN {MG("known_request", FALSE)}
    ELSE IF e.ev = "mw" THEN
        LET rq == ms.reqs[e.rq] IN
        {MG("middleware_in_configuration_order", e.i = rq.mws + 1 /\ e.i <= MwsRun(cfg)),
         MG("middleware_sees_request_scope", SeesOwnScope(ms, e)),
         MG("middleware_before_handler", ~rq.handler /\ ~rq.method /\ rq.errhs = <<>>)}
    ELSE IF e.ev = "handler" THEN
        LET rq == ms.reqs[e.rq] IN
        {MG("handler_only_when_reached", ReachesHandler(cfg) /\ ~IsHandle(cfg) /\ ~rq.handler),
         MG("handler_after_all_middlewares", rq.mws = MwsRun(cfg) /\ rq.errhs = <<>>),
         MG("handler_sees_request_scope", IF HasScope(cfg) THEN SeesOwnScope(ms, e) ELSE e.scope = NONE)}
    ELSE IF e.ev = "method" THEN
        LET rq == ms.reqs[e.rq] IN
        {MG("method_only_after_resolving_controller", MethodRuns(cfg) /\ ~rq.method /\ rq.errhs = <<>>),
         MG("method_after_all_middlewares", rq.mws = MwsRun(cfg)),
         MG("controller_from_request_scope", SeesOwnScope(ms, e) /\ e.ctrl # 0)}
    ELSE IF e.ev = "errh" THEN
        LET rq == ms.reqs[e.rq] IN
        {MG("expected_error_handler", LET now == Append(rq.errhs, e.kind) exp == ExpectedErrHandlers(cfg) IN
                                      Len(now) <= Len(exp) /\ now = SubSeq(exp, 1, Len(now))),
         MG("error_handler_instead_of_handler", e.kind \in {"scope", "mw", "handle_scope", "handle_resolve"} => (~rq.handler /\ ~rq.method)),
         MG("exactly_one_of_scope_and_resolution_handler",
            e.kind \in {"handle_scope", "handle_resolve"} => \A i \in DOMAIN rq.errhs : rq.errhs[i] \notin {"handle_scope", "handle_resolve"})}
    ELSE IF e.ev = "scope_closed" THEN
        {MG("request_scope_closed_once", \A r \in OwnerOfScope(ms, e.scope) : ms.reqs[r].closed = 0),
         MG("request_scope_closed_by_end_of_request", \A r \in OwnerOfScope(ms, e.scope) : ~ms.reqs[r].done)}
    ELSE IF e.ev = "done" THEN
        LET rq == ms.reqs[e.rq] IN
        {MG("exactly_one_scope_per_request",
            /\ (~HasScope(cfg) => rq.scope = NONE)
            /\ ((HasScope(cfg) /\ (rq.mws > 0 \/ rq.handler \/ rq.method)) => rq.scope # NONE)),
         MG("all_middlewares_ran", rq.mws = MwsRun(cfg)),
         MG("handler_ran_iff_reached", rq.handler = (ReachesHandler(cfg) /\ ~IsHandle(cfg))),
         MG("method_ran_iff_resolved", rq.method = MethodRuns(cfg)),
         MG("error_handlers_as_expected", rq.errhs = ExpectedErrHandlers(cfg)),
         MG("scope_closed_exactly_once", rq.scope # NONE => rq.closed = 1),
         MG("scoped_instance_closed_exactly_once", rq.probe # 0 => rq.probeClosed = 1),
         MG("panic_swallowed_iff_recovery", e.panicked = PanicEscapes(cfg)),
         MG("default_error_handler_answers_500", DefaultEH(cfg) => e.status = 500)}
    ELSE IF e.ev = "closeerrh" THEN
        \* the handler is told about a failed close of a request scope: only when one failed, at most once per scope
        {MGI("close_error_handler_only_for_failed_close",
            CloseFails(cfg) /\ ms.closeerrs < Cardinality({r \in ReqIds(ms) : ms.reqs[r].probe # 0 /\ ms.reqs[r].closed >= 1}))}
    ELSE IF e.ev = "end" THEN
        {MGI("close_error_handler_ran_for_every_failed_close",
            ms.closeerrs = IF CloseFails(cfg) THEN Cardinality({r \in ReqIds(ms) : ms.reqs[r].probe # 0}) ELSE 0)}
    ELSE IF e.ev \in {"mismatch", "harness_error"} THEN {MG("consistent_scope_views", FALSE)}
    ELSE {}
=============================================================================
