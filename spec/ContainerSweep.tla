---------------------------- MODULE ContainerSweep ----------------------------
(***************************************************************************)
(* Configuration-space model: Init ranges over a factored space of         *)
(* registration sets (every registration mode, lifetime and dependency     *)
(* form over NS service slots); each configuration is driven through one   *)
(* canonical script: Build, then a full resolvability sweep in two sibling *)
(* scopes, close, provider close.  TLC checks on the reference that every  *)
(* guard holds for every configuration (the Build verdict predicates       *)
(* Cyclic / Conflict / Missing and the wiring rules are consistent), and   *)
(* emits every configuration with its script.  The script is emitted for   *)
(* ALL non-cyclic configurations - also those the reference refuses to     *)
(* build - so that an implementation that wrongly accepts one is caught by *)
(* the sweep (C08 soundness, C07 captive dependencies).                    *)
(***************************************************************************)
EXTENDS ContainerMC

CONSTANTS NS,         \* number of service slots (2 or 3)
          RefDepth,   \* how many script steps are also run through the reference (design-level check)
          MaxEdges,   \* bound on the number of declared dependencies in a configuration
          Family      \* "F1": uniform lifetimes x all forms;  "F2": all lifetimes x forms that hit;  "F0": both free (NS=2)

SlotsS == 0..(NS - 1)
Pairs == {p \in SlotsS \X SlotsS : p[1] # p[2]}
Lifes3 == {"singleton", "scoped", "transient"}
Modes3 == {"p", "k", "g"}

HitForm(mode) == mode        \* the parameter form that addresses a registration of that mode
AllForms == {"-", "p", "k", "g", "o"}

ModeSpace == [SlotsS -> Modes3]
LifeSpace == IF Family = "F1" THEN {[s \in SlotsS |-> l] : l \in Lifes3} ELSE [SlotsS -> Lifes3]
EdgeSets == {E \in SUBSET Pairs : Cardinality(E) <= MaxEdges}
GSpace(E, m) == IF Family = "F2" THEN {[p \in E |-> HitForm(m[p[2]])]} ELSE [E -> AllForms \ {"-"}]
FormSpace(m) == UNION {{[p \in Pairs |-> IF p \in E THEN g[p] ELSE "-"] : g \in GSpace(E, m)} : E \in EdgeSets}

ParamFor(j, form) == [t |-> SlotType(j), k |-> IF form = "k" THEN "k" ELSE NONE, g |-> IF form = "g" THEN "g" ELSE NONE,
                      opt |-> form = "o", b |-> NONE]
RECURSIVE ParamsOf(_, _, _)
ParamsOf(i, f, j) == IF j >= NS THEN <<>>
                     ELSE (IF j # i /\ f[<<i, j>>] # "-" THEN <<ParamFor(j, f[<<i, j>>])>> ELSE <<>>) \o ParamsOf(i, f, j + 1)

Str(fn, S) == LET RECURSIVE cat(_) cat(k) == IF k >= NS THEN "" ELSE fn[k] \o cat(k + 1) IN cat(0)
LifeCode(l) == IF l = "singleton" THEN "S" ELSE IF l = "scoped" THEN "C" ELSE "T"
RECURSIVE FormStr(_, _)
FormStr(f, ps) == IF ps = {} THEN ""
                  ELSE LET p == CHOOSE x \in ps : \A y \in ps : x[1] < y[1] \/ (x[1] = y[1] /\ x[2] <= y[2])
                       IN f[p] \o FormStr(f, ps \ {p})

MkCfg(m, l, f) ==
    [cid |-> Family \o ToString(NS) \o ":" \o Str(m, SlotsS) \o ":" \o Str([s \in SlotsS |-> LifeCode(l[s])], SlotsS) \o ":" \o FormStr(f, Pairs),
     regs |-> [i \in 1..NS |->
                 [id |-> "r" \o ToString(i - 1), life |-> l[i - 1], slot |-> i - 1, slot2 |-> 0, var |-> "a",
                  shape |-> "ctorerr", po |-> TRUE,
                  name |-> IF m[i - 1] = "k" THEN "k" ELSE NONE, group |-> IF m[i - 1] = "g" THEN "g" ELSE NONE,
                  as |-> <<>>, params |-> ParamsOf(i - 1, f, 0), kind |-> ""]],
     faults |-> <<>>, closeerr |-> <<>>]

Op(op, sc, name, t, k, g) == [op |-> op, sc |-> sc, name |-> name, ctx |-> (IF sc = "prov" THEN "val" ELSE "nil"), t |-> t, k |-> k, g |-> g]

RECURSIVE ResolveAll(_, _, _)
ResolveAll(cfg, sc, i) ==
    IF i > Len(cfg.regs) THEN <<>>
    ELSE LET r == cfg.regs[i] IN
         (IF r.group # NONE THEN <<Op("group", sc, NONE, SlotType(r.slot), NONE, r.group)>>
          ELSE <<Op("resolve", sc, NONE, SlotType(r.slot), r.name, NONE)>>) \o ResolveAll(cfg, sc, i + 1)

Script(cfg) ==
    IF Cyclic(cfg) THEN <<Op("build", NONE, NONE, NONE, NONE, NONE)>>
    ELSE <<Op("build", NONE, NONE, NONE, NONE, NONE), Op("create", "prov", "s1", NONE, NONE, NONE)>>
         \o ResolveAll(cfg, "s1", 1) \o ResolveAll(cfg, "s1", 1)
         \o <<Op("create", "prov", "s2", NONE, NONE, NONE)>> \o ResolveAll(cfg, "s2", 1)
         \o ResolveAll(cfg, "prov", 1)
         \o <<Op("close", "s1", NONE, NONE, NONE, NONE), Op("closeprov", NONE, NONE, NONE, NONE, NONE)>>

RunOp(s, o) ==
    IF o.op = "build" THEN RefBuild(s)
    ELSE IF o.op = "create" THEN RefCreate(s, o.sc, o.name)
    ELSE IF o.op = "resolve" THEN RefResolve(s, o.sc, o.t, o.k)
    ELSE IF o.op = "group" THEN RefGroupOp(s, o.sc, o.t, o.g)
    ELSE IF o.op = "close" THEN RefClose(s, "close", o.sc)
    ELSE RefCloseProv(s)

\* Init only fixes the registration modes (27 initial states); the Pick step chooses lifetimes and
\* dependency forms, so that TLC's workers enumerate the configuration space in parallel.
PickCfg(m) == [cid |-> "pick", regs |-> <<>>, faults |-> <<>>, closeerr |-> <<>>, modes |-> m]
SInit == /\ \E m \in ModeSpace : st = [InitState(PickCfg(m)) EXCEPT !.phase = "pick"]
         /\ hist = <<>>
         /\ bad = {}

Pick == /\ st.phase = "pick"
        /\ \E l \in LifeSpace, f \in FormSpace(st.cfg.modes) : st' = InitState(MkCfg(st.cfg.modes, l, f))
        /\ UNCHANGED <<hist, bad>>

Run == LET sc == Script(st.cfg)
           k  == Len(hist) + 1
       IN /\ st.phase # "pick"
          /\ k <= Len(sc) /\ k <= RefDepth
          /\ (k = 1 \/ st.phase \in {"built", "closed"})
          /\ Do(RunOp(st, sc[k]), sc[k])

SNext == Pick \/ Run
SweepSpec == SInit /\ [][SNext]_vars

SEmit == IF EmitOn /\ st.phase = "pick" THEN PrintT(<<"SCN", ToJson([cfg |-> st'.cfg, ops |-> Script(st'.cfg)])>>) ELSE TRUE

\* sanity of the oracle itself: the reference builds exactly the buildable configurations
VerdictConsistent == (st.phase = "built" => Buildable(st.cfg)) /\ (st.phase = "failed" => ~Buildable(st.cfg))
=============================================================================
