------------------------------ MODULE ScopeConc ------------------------------
(***************************************************************************)
(* The concurrent protocol of provider and scopes, implementation-shaped:  *)
(* ONE ACTION PER CRITICAL SECTION.  A step of a thread is the code        *)
(* between two consecutive scheduling points (the verifGate hook points in *)
(* scope.go / provider.go, plus the entry of user constructors and of      *)
(* instance Close methods); its label is the gate the thread is parked at. *)
(* Threads are procedure stacks (Get calls Get for dependencies, Close     *)
(* calls Close for children, CreateScope may call Close to abandon).       *)
(*                                                                         *)
(* Services: S singleton; A scoped, depends on B; B scoped; T transient;   *)
(* all disposable.  Scopes: root, s1 (child of the provider), s2 (child of *)
(* s1), s3 (child of s2), and scopes created by the threads themselves.    *)
(***************************************************************************)
EXTENDS Naturals, Sequences, FiniteSets, TLC

CONSTANTS Threads,      \* user threads, e.g. {"t1", "t2"}
          Mixes,        \* set of [thread -> operation record [op, s, k]]: the programs explored
          InitScopes,   \* subset of {"s1", "s2", "s3"}: scopes that exist (open) initially (s2 child of s1, s3 child of s2)
          PreCached,    \* set of <<scope, key>> already resolved before the threads start
          NewCtxIndependent   \* TRUE: threads create scopes with a context of their own (not derived from the parent's)

NONE == "-"
Range(s) == {s[i] : i \in DOMAIN s}
Last(s) == s[Len(s)]
Front(s) == SubSeq(s, 1, Len(s) - 1)

NewScopeOf(t) == "n_" \o t
AllScopes == {"root", "s1", "s2", "s3"} \cup {NewScopeOf(t) : t \in Threads}
Watchers == {"w:" \o s : s \in AllScopes \ {"root"}}
ScopeOfWatcher(w) == CHOOSE s \in AllScopes : w = "w:" \o s
Procs == Threads \cup Watchers

\* I and J are two interface aliases of one scoped registration X; M and N the two results of one scoped
\* multi-return constructor MN: one construction (one flight) serves both identities
Keys == {"S", "A", "B", "T", "I", "J", "M", "N"}
LifeOfKey(k) == IF k = "S" THEN "singleton" ELSE IF k = "T" THEN "transient" ELSE "scoped"
DepsOfKey(k) == IF k = "A" THEN <<"B">> ELSE <<>>
Flight(k) == IF k \in {"I", "J"} THEN "X" ELSE IF k \in {"M", "N"} THEN "MN" ELSE k

VARIABLES
    exists, parent, disposed, inst, creating, disp, drained, children, ctxDone, done,   \* per scope
    pdisposed, pscopes, pdisp, sing,                                                   \* provider
    stack, result,                                                                     \* per process
    wstate,                                                                            \* per watcher: none | waiting | running | exited
    created, closedCount, nextId,                                                      \* ghost: instances
    ops,                                                                               \* the program: [thread -> operation]
    hist                                                                               \* schedule so far: <<process, label>>

svars == <<exists, parent, disposed, inst, creating, disp, drained, children, ctxDone, done>>
pvars == <<pdisposed, pscopes, pdisp, sing>>
gvars == <<created, closedCount, nextId>>
vars == <<svars, pvars, stack, result, wstate, gvars, ops, hist>>

Nil == [nil |-> TRUE, v |-> {}]
Tab(v) == [nil |-> FALSE, v |-> v]

\* ---- frames -------------------------------------------------------------------------------
\* [proc, pc, s (scope), k (key), i (instance in hand), todo (children / disposables still to process),
\*  flight (BOOLEAN: this frame holds the construction claim), args, err, ret]
Frame(proc, pc, s, k) == [proc |-> proc, pc |-> pc, s |-> s, k |-> k, i |-> 0, todo |-> <<>>, flight |-> FALSE,
                          err |-> NONE, sub |-> NONE, val |-> 0]

Top(p) == Last(stack[p])
HasFrame(p) == stack[p] # <<>>
AtPc(p, proc, pc) == HasFrame(p) /\ Top(p).proc = proc /\ Top(p).pc = pc

\* replace the top frame
SetTop(p, f) == [stack EXCEPT ![p] = Append(Front(@), f)]
Push(st, p, f) == [st EXCEPT ![p] = Append(@, f)]
\* pop the top frame, handing [err, val] to the caller frame (stored in its sub/val fields) or to result[p]
Return(p, err, val) ==
    IF Len(stack[p]) = 1
    THEN /\ stack' = [stack EXCEPT ![p] = <<>>]
         /\ result' = [result EXCEPT ![p] = [err |-> err, val |-> val]]
    ELSE /\ stack' = [stack EXCEPT ![p] = Append(SubSeq(@, 1, Len(@) - 2),
                                                  [@[Len(@) - 1] EXCEPT !.sub = err, !.val = val, !.pc = @ \o "_ret"])]
         /\ UNCHANGED result

Step(p, label) == hist' = Append(hist, <<p, label, "">>) /\ UNCHANGED ops
\* snapshots iterate a Go map: any order is possible (all are explored); "fwd" marks insertion order, which is
\* what the runtime produces most of the time for these small maps (used to pick the schedules worth replaying)
Rank(s) == IF s = "s1" THEN 1 ELSE IF s = "s2" THEN 2 ELSE IF s = "s3" THEN 3 ELSE 4
Fwd(order) == \A i, j \in DOMAIN order : i < j => Rank(order[i]) <= Rank(order[j])
StepOrd(p, label, order) == hist' = Append(hist, <<p, label, IF Fwd(order) THEN "fwd" ELSE "rev">>) /\ UNCHANGED ops

\* the scopes whose context is cancelled when s's context is: s and every existing descendant
\* (child scopes are created with the parent scope's context)
CtxDerived(c) == c \in {"s1", "s2", "s3"} \/ ~NewCtxIndependent
RECURSIVE Desc(_, _)
Desc(s, ex) == {s} \cup UNION {Desc(c, ex) : c \in {x \in ex : parent[x] = s /\ CtxDerived(x)}}

(***************************************************************************)
(* Initial state                                                           *)
(***************************************************************************)
Pre(s, k) == [o |-> s, k |-> k, n |-> 0]
PreSeq(s) == (IF <<s, "B">> \in PreCached THEN <<Pre(s, "B")>> ELSE <<>>) \o
             (IF <<s, "A">> \in PreCached THEN <<Pre(s, "A")>> ELSE <<>>) \o
             (IF <<s, "T">> \in PreCached THEN <<Pre(s, "T")>> ELSE <<>>)
SingInst == [o |-> "prov", k |-> "S", n |-> 0]
Init ==
    /\ ops \in Mixes
    /\ exists = [s \in AllScopes |-> s = "root" \/ s \in InitScopes]
    /\ parent = [s \in AllScopes |-> IF s = "s2" THEN "s1" ELSE IF s = "s3" THEN "s2" ELSE NONE]
    /\ disposed = [s \in AllScopes |-> FALSE]
    /\ inst = [s \in AllScopes |-> Tab({Pre(s, k) : k \in {x \in {"A", "B"} : <<s, x>> \in PreCached}})]
    /\ creating = [s \in AllScopes |-> {}]
    /\ disp = [s \in AllScopes |-> PreSeq(s)]
    /\ drained = [s \in AllScopes |-> FALSE]
    /\ children = [s \in AllScopes |-> Tab(IF s = "s1" /\ "s2" \in InitScopes THEN {"s2"}
                                             ELSE IF s = "s2" /\ "s3" \in InitScopes THEN {"s3"} ELSE {})]
    /\ ctxDone = [s \in AllScopes |-> FALSE]
    /\ done = [s \in AllScopes |-> FALSE]
    /\ pdisposed = FALSE
    /\ pscopes = Tab(InitScopes)
    /\ pdisp = <<SingInst>>
    /\ sing = TRUE
    /\ stack = [p \in Procs |-> IF p \in Threads THEN <<Frame(ops[p].op, "start", ops[p].s, ops[p].k)>> ELSE <<>>]
    /\ result = [p \in Procs |-> [err |-> NONE, val |-> 0]]
    /\ wstate = [w \in Watchers |-> IF ScopeOfWatcher(w) \in InitScopes THEN "waiting" ELSE "none"]
    /\ created = {SingInst} \cup UNION {Range(PreSeq(s)) : s \in AllScopes}
    /\ closedCount = [i \in {} |-> 0]
    /\ nextId = 1
    /\ hist = <<>>

CC(i) == IF i \in DOMAIN closedCount THEN closedCount[i] ELSE 0
CloseInst(i) == closedCount' = (i :> (CC(i) + 1)) @@ closedCount

(***************************************************************************)
(* scope.Get(k)  [proc "get"]                                              *)
(***************************************************************************)
GetStart(p) ==      \* gate R_check: the disposed check and, by lifetime, what follows without another gate
    /\ AtPc(p, "get", "start")
    /\ LET f == Top(p) IN
       IF disposed[f.s] THEN Return(p, "scopeDisposed", 0) /\ UNCHANGED <<svars, pvars, wstate, gvars>>
       ELSE IF LifeOfKey(f.k) = "singleton" THEN Return(p, NONE, SingInst) /\ UNCHANGED <<svars, pvars, wstate, gvars>>
       ELSE IF LifeOfKey(f.k) = "scoped" THEN stack' = SetTop(p, [f EXCEPT !.pc = "lookup"]) /\ UNCHANGED <<svars, pvars, result, wstate, gvars>>
       ELSE stack' = SetTop(p, [f EXCEPT !.pc = "deps", !.todo = DepsOfKey(f.k)]) /\ UNCHANGED <<svars, pvars, result, wstate, gvars>>
    /\ Step(p, "R_check")

GetLookup(p) ==     \* gate R_lookup: the lock-free cache lookup (read lock only): hit, or go on to the locked section
    /\ AtPc(p, "get", "lookup")
    /\ LET f == Top(p) IN
       IF ~inst[f.s].nil /\ \E i \in inst[f.s].v : i.k = Flight(f.k)
       THEN Return(p, NONE, CHOOSE i \in inst[f.s].v : i.k = Flight(f.k)) /\ UNCHANGED <<svars, pvars, wstate, gvars>>   \* cache hit
       ELSE stack' = SetTop(p, [f EXCEPT !.pc = "claim"]) /\ UNCHANGED <<svars, pvars, result, wstate, gvars>>
    /\ Step(p, "R_lookup")

GetClaim(p) ==      \* gate R_claim: under the write lock - look again (somebody may have stored the instance since the
                    \* lock-free lookup missed), find the construction in flight, or claim it
    /\ AtPc(p, "get", "claim")
    /\ LET f == Top(p) IN
       IF ~inst[f.s].nil /\ \E i \in inst[f.s].v : i.k = Flight(f.k)
       THEN Return(p, NONE, CHOOSE i \in inst[f.s].v : i.k = Flight(f.k)) /\ UNCHANGED <<svars, pvars, wstate, gvars>>
       ELSE IF Flight(f.k) \in creating[f.s]
       THEN stack' = SetTop(p, [f EXCEPT !.pc = "wait"]) /\ UNCHANGED <<svars, pvars, result, wstate, gvars>>
       ELSE /\ creating' = [creating EXCEPT ![f.s] = @ \cup {Flight(f.k)}]
            /\ stack' = SetTop(p, [f EXCEPT !.pc = "deps", !.todo = DepsOfKey(f.k), !.flight = TRUE])
            /\ UNCHANGED <<exists, parent, disposed, inst, disp, drained, children, ctxDone, done, pvars, result, wstate, gvars>>
    /\ Step(p, "R_claim")

GetWait(p) ==       \* gate R_wait: blocked until the construction in flight has finished, then look again
    /\ AtPc(p, "get", "wait")
    /\ Flight(Top(p).k) \notin creating[Top(p).s]
    /\ stack' = SetTop(p, [Top(p) EXCEPT !.pc = "lookup"])
    /\ UNCHANGED <<svars, pvars, result, wstate, gvars>>
    /\ Step(p, "R_wait")

\* dependencies are resolved one by one through the public Get of the same scope (not a gate of its own:
\* the callee's R_check is the next gate), then the constructor is entered
GetDeps(p) ==
    /\ AtPc(p, "get", "deps")
    /\ LET f == Top(p) IN
       IF f.todo # <<>>
       THEN stack' = Push(SetTop(p, [f EXCEPT !.todo = Tail(@), !.pc = "dep"]), p, Frame("get", "start", f.s, Head(f.todo)))
       ELSE stack' = SetTop(p, [f EXCEPT !.pc = "ctor"])
    /\ UNCHANGED <<svars, pvars, result, wstate, gvars, ops, hist>>

ReleaseFlight(f) == IF f.flight THEN creating' = [creating EXCEPT ![f.s] = @ \ {Flight(f.k)}] ELSE UNCHANGED creating

GetDepRet(p) ==     \* a dependency came back: go on, or give up (no gate)
    /\ AtPc(p, "get", "dep_ret")
    /\ LET f == Top(p) IN
       IF f.sub = NONE
       THEN /\ stack' = SetTop(p, [f EXCEPT !.pc = "deps"]) /\ UNCHANGED <<svars, result>>
       ELSE /\ ReleaseFlight(f) /\ Return(p, f.sub, 0)
            /\ UNCHANGED <<exists, parent, disposed, inst, disp, drained, children, ctxDone, done>>
    /\ UNCHANGED <<pvars, wstate, gvars, ops, hist>>

GetCtor(p) ==       \* gate U_ctor: the user constructor runs and returns a new instance
    /\ AtPc(p, "get", "ctor")
    /\ LET f == Top(p)
           i == [o |-> f.s, k |-> Flight(f.k), n |-> nextId]
       IN /\ created' = created \cup {i}
          /\ nextId' = nextId + 1
          /\ stack' = SetTop(p, [f EXCEPT !.i = i, !.pc = IF LifeOfKey(f.k) = "scoped" THEN "store" ELSE "track"])
    /\ UNCHANGED <<svars, pvars, result, wstate, closedCount>>
    /\ Step(p, "U_ctor")

GetStore(p) ==      \* gate R_store: cache fill under the lock, or find the table cleared by Close
    /\ AtPc(p, "get", "store")
    /\ LET f == Top(p) IN
       IF inst[f.s].nil
       THEN stack' = SetTop(p, [f EXCEPT !.pc = "discard"]) /\ UNCHANGED inst
       ELSE inst' = [inst EXCEPT ![f.s] = Tab(@.v \cup {f.i})] /\ stack' = SetTop(p, [f EXCEPT !.pc = "track"])
    /\ UNCHANGED <<exists, parent, disposed, creating, disp, drained, children, ctxDone, done, pvars, result, wstate, gvars>>
    /\ Step(p, "R_store")

GetTrack(p) ==      \* gate R_track: register for disposal under the lock, or find the scope drained
    /\ AtPc(p, "get", "track")
    /\ LET f == Top(p) IN
       IF drained[f.s]
       THEN /\ stack' = SetTop(p, [f EXCEPT !.pc = "discard"]) /\ UNCHANGED <<svars, result>>
       ELSE /\ disp' = [disp EXCEPT ![f.s] = Append(@, f.i)]
            /\ ReleaseFlight(f)
            /\ Return(p, NONE, f.i)
            /\ UNCHANGED <<exists, parent, disposed, inst, drained, children, ctxDone, done>>
    /\ UNCHANGED <<pvars, wstate, gvars>>
    /\ Step(p, "R_track")

GetDiscard(p) ==    \* gate U_close: the instance constructed for a closing scope is disposed by its creator
    /\ AtPc(p, "get", "discard")
    /\ LET f == Top(p) IN
       /\ CloseInst(f.i)
       /\ ReleaseFlight(f)
       /\ Return(p, "scopeDisposed", 0)
    /\ UNCHANGED <<exists, parent, disposed, inst, disp, drained, children, ctxDone, done, pvars, wstate, created, nextId>>
    /\ Step(p, "U_close")

(***************************************************************************)
(* provider.Get(k)  [proc "pget"]                                          *)
(***************************************************************************)
PGetStart(p) ==     \* gate G_check
    /\ AtPc(p, "pget", "start")
    /\ IF pdisposed THEN Return(p, "providerDisposed", 0)
       ELSE stack' = SetTop(p, [Top(p) EXCEPT !.pc = "root"]) /\ UNCHANGED result
    /\ UNCHANGED <<svars, pvars, wstate, gvars>>
    /\ Step(p, "G_check")

PGetRoot(p) ==      \* gate G_root: delegate to the root scope
    /\ AtPc(p, "pget", "root")
    /\ stack' = Push(SetTop(p, [Top(p) EXCEPT !.pc = "call"]), p, Frame("get", "start", "root", Top(p).k))
    /\ UNCHANGED <<svars, pvars, result, wstate, gvars>>
    /\ Step(p, "G_root")

PGetRet(p) ==
    /\ AtPc(p, "pget", "call_ret")
    /\ Return(p, Top(p).sub, Top(p).val)
    /\ UNCHANGED <<svars, pvars, wstate, gvars, ops, hist>>

(***************************************************************************)
(* CreateScope  [proc "create"]: s = parent scope or "prov"                *)
(***************************************************************************)
CreateStart(p) ==   \* gate K_check: disposed check, then the new scope object exists (no table knows it yet)
    /\ AtPc(p, "create", "start")
    /\ LET f == Top(p)
           n == NewScopeOf(p)
       IN
       IF (f.s = "prov" /\ pdisposed) \/ (f.s # "prov" /\ disposed[f.s])
       THEN Return(p, IF f.s = "prov" THEN "providerDisposed" ELSE "scopeDisposed", 0) /\ UNCHANGED <<svars, wstate>>
       ELSE /\ exists' = [exists EXCEPT ![n] = TRUE]
            /\ parent' = [parent EXCEPT ![n] = IF f.s = "prov" THEN NONE ELSE f.s]
            \* a child created with the parent scope's context is born cancelled if that context already is
            /\ ctxDone' = [ctxDone EXCEPT ![n] = f.s # "prov" /\ ctxDone[f.s] /\ ~NewCtxIndependent]
            /\ stack' = SetTop(p, [f EXCEPT !.pc = IF f.s = "prov" THEN "track" ELSE "addchild"])
            /\ UNCHANGED <<disposed, inst, creating, disp, drained, children, done, result, wstate>>
    /\ UNCHANGED <<pvars, gvars>>
    /\ Step(p, "K_check")

Abandon(p, f, err) ==   \* close the scope just created, then report err
    stack' = Push(SetTop(p, [f EXCEPT !.pc = "abandon", !.err = err]), p, Frame("close", "start", NewScopeOf(p), NONE))

CreateAddChild(p) == \* gate K_addChild: register with the parent under its lock, unless the parent was closed meanwhile
    /\ AtPc(p, "create", "addchild")
    /\ LET f == Top(p) IN
       IF children[f.s].nil THEN Abandon(p, f, "scopeDisposed") /\ UNCHANGED children
       ELSE children' = [children EXCEPT ![f.s] = Tab(@.v \cup {NewScopeOf(p)})] /\ stack' = SetTop(p, [f EXCEPT !.pc = "track"])
    /\ UNCHANGED <<exists, parent, disposed, inst, creating, disp, drained, ctxDone, done, pvars, result, wstate, gvars>>
    /\ Step(p, "K_addChild")

CreateTrack(p) ==   \* gate K_track: register with the provider under its lock, unless it was closed meanwhile; start the watcher
    /\ AtPc(p, "create", "track")
    /\ LET f == Top(p)
           n == NewScopeOf(p)
       IN
       IF pscopes.nil THEN Abandon(p, f, "providerDisposed") /\ UNCHANGED <<pscopes, wstate, result, children>>
       ELSE IF disposed[n]      \* already closed by a concurrent Close of the parent that found it in the children table
       THEN /\ children' = [children EXCEPT ![f.s] = IF @.nil THEN @ ELSE Tab(@.v \ {n})]
            /\ Return(p, "scopeDisposed", 0)
            /\ UNCHANGED <<pscopes, wstate>>
       ELSE /\ pscopes' = Tab(pscopes.v \cup {n})
            /\ wstate' = [wstate EXCEPT !["w:" \o n] = "waiting"]
            /\ Return(p, NONE, n)
            /\ UNCHANGED children
    /\ UNCHANGED <<exists, parent, disposed, inst, creating, disp, drained, ctxDone, done, pdisposed, pdisp, sing, gvars>>
    /\ Step(p, "K_track")

CreateAbandoned(p) ==
    /\ AtPc(p, "create", "abandon_ret")
    /\ Return(p, Top(p).err, 0)
    /\ UNCHANGED <<svars, pvars, wstate, gvars, ops, hist>>

(***************************************************************************)
(* scope.Close  [proc "close"]                                             *)
(***************************************************************************)
CloseCas(p) ==      \* gate C_cas: the compare-and-swap gate
    /\ AtPc(p, "close", "start")
    /\ LET f == Top(p) IN
       IF disposed[f.s]
       THEN Return(p, NONE, 0) /\ UNCHANGED <<svars>>
       ELSE /\ disposed' = [disposed EXCEPT ![f.s] = TRUE]
            /\ stack' = SetTop(p, [f EXCEPT !.pc = "children"])
            /\ UNCHANGED <<exists, parent, inst, creating, disp, drained, children, ctxDone, done, result>>
    /\ UNCHANGED <<pvars, wstate, gvars>>
    /\ Step(p, "C_cas")

CloseChildren(p) == \* gate C_children: take the children and clear the table under the lock, then cancel the context
    /\ AtPc(p, "close", "children")
    /\ LET f == Top(p) IN
       /\ children' = [children EXCEPT ![f.s] = Nil]
       /\ ctxDone' = [x \in AllScopes |-> ctxDone[x] \/ (x \in Desc(f.s, {y \in AllScopes : exists[y]}))]
       /\ \E order \in {o \in [1..Cardinality(children[f.s].v) -> children[f.s].v] : Range(o) = children[f.s].v} :
             /\ stack' = SetTop(p, [f EXCEPT !.todo = order, !.pc = "nextchild"])
             /\ StepOrd(p, "C_children", order)
    /\ UNCHANGED <<exists, parent, disposed, inst, creating, disp, drained, done, pvars, result, wstate, gvars>>

CloseNextChild(p) == \* no gate: call Close of the next child (its C_cas is the next gate), or go on to the drain
    /\ AtPc(p, "close", "nextchild")
    /\ LET f == Top(p) IN
       IF f.todo # <<>>
       THEN stack' = Push(SetTop(p, [f EXCEPT !.pc = "child"]), p, Frame("close", "start", Head(f.todo), NONE))
       ELSE stack' = SetTop(p, [f EXCEPT !.pc = "drain"])
    /\ UNCHANGED <<svars, pvars, result, wstate, gvars, ops, hist>>

CloseChildRet(p) == \* the child's Close returned (possibly a no-op: someone else is closing it): go and wait for it
    /\ AtPc(p, "close", "child_ret")
    /\ stack' = SetTop(p, [Top(p) EXCEPT !.pc = "waitchild"])
    /\ UNCHANGED <<svars, pvars, result, wstate, gvars, ops, hist>>

CloseWaitChild(p) == \* gate C_waitchild: blocked until the child's disposal is complete
    /\ AtPc(p, "close", "waitchild")
    /\ done[Head(Top(p).todo)]
    /\ stack' = SetTop(p, [Top(p) EXCEPT !.todo = Tail(@), !.pc = "nextchild"])
    /\ UNCHANGED <<svars, pvars, result, wstate, gvars>>
    /\ Step(p, "C_waitchild")

CloseDrain(p) ==    \* gate C_drain: take the disposables, mark the scope drained, under the lock
    /\ AtPc(p, "close", "drain")
    /\ LET f == Top(p) IN
       /\ disp' = [disp EXCEPT ![f.s] = <<>>]
       /\ drained' = [drained EXCEPT ![f.s] = TRUE]
       /\ stack' = SetTop(p, [f EXCEPT !.todo = disp[f.s], !.pc = "dispose"])
    /\ UNCHANGED <<exists, parent, disposed, inst, creating, children, ctxDone, done, pvars, result, wstate, gvars>>
    /\ Step(p, "C_drain")

CloseDispose(p) ==  \* gate U_close (one per instance, reverse creation order); after the last: next phase (no gate)
    /\ AtPc(p, "close", "dispose")
    /\ LET f == Top(p) IN
       IF f.todo # <<>>
       THEN /\ CloseInst(Last(f.todo))
            /\ stack' = SetTop(p, [f EXCEPT !.todo = Front(@)])
            /\ Step(p, "U_close")
       ELSE /\ stack' = SetTop(p, [f EXCEPT !.pc = IF parent[f.s] # NONE THEN "unparent" ELSE "untrack"])
            /\ UNCHANGED <<closedCount, ops, hist>>
    /\ UNCHANGED <<svars, pvars, result, wstate, created, nextId>>

CloseUnparent(p) == \* gate C_unparent
    /\ AtPc(p, "close", "unparent")
    /\ LET f == Top(p) IN
       /\ children' = [children EXCEPT ![parent[f.s]] = IF @.nil THEN @ ELSE Tab(@.v \ {f.s})]
       /\ stack' = SetTop(p, [f EXCEPT !.pc = "untrack"])
    /\ UNCHANGED <<exists, parent, disposed, inst, creating, disp, drained, ctxDone, done, pvars, result, wstate, gvars>>
    /\ Step(p, "C_unparent")

CloseUntrack(p) ==  \* gate C_untrack
    /\ AtPc(p, "close", "untrack")
    /\ pscopes' = IF pscopes.nil THEN pscopes ELSE Tab(pscopes.v \ {Top(p).s})
    /\ stack' = SetTop(p, [Top(p) EXCEPT !.pc = "clear"])
    /\ UNCHANGED <<svars, pdisposed, pdisp, sing, result, wstate, gvars>>
    /\ Step(p, "C_untrack")

CloseClear(p) ==    \* gate C_clear: clear the cache, signal completion, return
    /\ AtPc(p, "close", "clear")
    /\ LET f == Top(p) IN
       /\ inst' = [inst EXCEPT ![f.s] = Nil]
       /\ done' = [done EXCEPT ![f.s] = TRUE]
       /\ Return(p, NONE, 0)
    /\ UNCHANGED <<exists, parent, disposed, creating, disp, drained, children, ctxDone, pvars, wstate, gvars>>
    /\ Step(p, "C_clear")

(***************************************************************************)
(* provider.Close  [proc "pclose"]                                         *)
(***************************************************************************)
PCloseCas(p) ==     \* gate P_cas
    /\ AtPc(p, "pclose", "start")
    /\ IF pdisposed THEN Return(p, NONE, 0) /\ UNCHANGED pdisposed
       ELSE pdisposed' = TRUE /\ stack' = SetTop(p, [Top(p) EXCEPT !.pc = "snapshot"]) /\ UNCHANGED result
    /\ UNCHANGED <<svars, pscopes, pdisp, sing, wstate, gvars>>
    /\ Step(p, "P_cas")

PCloseSnapshot(p) == \* gate P_snapshot
    /\ AtPc(p, "pclose", "snapshot")
    /\ pscopes' = Nil
    /\ \E order \in {o \in [1..Cardinality(pscopes.v) -> pscopes.v] : Range(o) = pscopes.v} :
          /\ stack' = SetTop(p, [Top(p) EXCEPT !.todo = order, !.pc = "nextscope"])
          /\ StepOrd(p, "P_snapshot", order)
    /\ UNCHANGED <<svars, pdisposed, pdisp, sing, result, wstate, gvars>>

PCloseNextScope(p) ==
    /\ AtPc(p, "pclose", "nextscope")
    /\ LET f == Top(p) IN
       IF f.todo # <<>>
       THEN stack' = Push(SetTop(p, [f EXCEPT !.pc = "scope"]), p, Frame("close", "start", Head(f.todo), NONE))
       ELSE stack' = SetTop(p, [f EXCEPT !.pc = "root"])
    /\ UNCHANGED <<svars, pvars, result, wstate, gvars, ops, hist>>

PCloseScopeRet(p) ==
    /\ AtPc(p, "pclose", "scope_ret")
    /\ stack' = SetTop(p, [Top(p) EXCEPT !.pc = "waitscope"])
    /\ UNCHANGED <<svars, pvars, result, wstate, gvars, ops, hist>>

PCloseWaitScope(p) == \* gate P_waitscope
    /\ AtPc(p, "pclose", "waitscope")
    /\ done[Head(Top(p).todo)]
    /\ stack' = SetTop(p, [Top(p) EXCEPT !.todo = Tail(@), !.pc = "nextscope"])
    /\ UNCHANGED <<svars, pvars, result, wstate, gvars>>
    /\ Step(p, "P_waitscope")

PCloseRoot(p) ==    \* gate P_root: close the root scope
    /\ AtPc(p, "pclose", "root")
    /\ stack' = Push(SetTop(p, [Top(p) EXCEPT !.pc = "rootcall"]), p, Frame("close", "start", "root", NONE))
    /\ UNCHANGED <<svars, pvars, result, wstate, gvars>>
    /\ Step(p, "P_root")

PCloseRootRet(p) ==
    /\ AtPc(p, "pclose", "rootcall_ret")
    /\ stack' = SetTop(p, [Top(p) EXCEPT !.pc = "drain"])
    /\ UNCHANGED <<svars, pvars, result, wstate, gvars, ops, hist>>

PCloseDrain(p) ==   \* gate P_drain
    /\ AtPc(p, "pclose", "drain")
    /\ pdisp' = <<>>
    /\ stack' = SetTop(p, [Top(p) EXCEPT !.todo = pdisp, !.pc = "dispose"])
    /\ UNCHANGED <<svars, pdisposed, pscopes, sing, result, wstate, gvars>>
    /\ Step(p, "P_drain")

PCloseDispose(p) == \* gate U_close per singleton, then P_clear
    /\ AtPc(p, "pclose", "dispose")
    /\ LET f == Top(p) IN
       IF f.todo # <<>>
       THEN /\ CloseInst(Last(f.todo)) /\ stack' = SetTop(p, [f EXCEPT !.todo = Front(@)]) /\ Step(p, "U_close")
       ELSE /\ stack' = SetTop(p, [f EXCEPT !.pc = "clear"]) /\ UNCHANGED <<closedCount, ops, hist>>
    /\ UNCHANGED <<svars, pvars, result, wstate, created, nextId>>

PCloseClear(p) ==   \* gate P_clear
    /\ AtPc(p, "pclose", "clear")
    /\ sing' = FALSE
    /\ Return(p, NONE, 0)
    /\ UNCHANGED <<svars, pdisposed, pscopes, pdisp, wstate, gvars>>
    /\ Step(p, "P_clear")

(***************************************************************************)
(* Watchers and cancellation                                               *)
(***************************************************************************)
Cancel(p) ==        \* a user thread cancels the context it created scope s with (harness action, atomic)
    /\ AtPc(p, "cancel", "start")
    /\ ctxDone' = [x \in AllScopes |-> ctxDone[x] \/ (x \in Desc(Top(p).s, {y \in AllScopes : exists[y]}))]
    /\ Return(p, NONE, 0)
    /\ UNCHANGED <<exists, parent, disposed, inst, creating, disp, drained, children, done, pvars, wstate, gvars>>
    /\ Step(p, "X_cancel")

WatcherWake(w) ==   \* gate W_wake: the context is done; the watcher closes its scope
    /\ wstate[w] = "waiting"
    /\ ctxDone[ScopeOfWatcher(w)]
    /\ wstate' = [wstate EXCEPT ![w] = "running"]
    /\ stack' = [stack EXCEPT ![w] = <<Frame("close", "start", ScopeOfWatcher(w), NONE)>>]
    /\ UNCHANGED <<svars, pvars, result, gvars>>
    /\ Step(w, "W_wake")

WatcherExit(w) ==   \* no gate: the goroutine ends when its Close returned
    /\ wstate[w] = "running" /\ stack[w] = <<>>
    /\ wstate' = [wstate EXCEPT ![w] = "exited"]
    /\ UNCHANGED <<svars, pvars, stack, result, gvars, ops, hist>>

ProcStep(p) ==
    \/ GetStart(p) \/ GetLookup(p) \/ GetClaim(p) \/ GetWait(p) \/ GetDeps(p) \/ GetDepRet(p) \/ GetCtor(p) \/ GetStore(p)
    \/ GetTrack(p) \/ GetDiscard(p) \/ PGetStart(p) \/ PGetRoot(p) \/ PGetRet(p)
    \/ CreateStart(p) \/ CreateAddChild(p) \/ CreateTrack(p) \/ CreateAbandoned(p)
    \/ CloseCas(p) \/ CloseChildren(p) \/ CloseNextChild(p) \/ CloseChildRet(p) \/ CloseWaitChild(p)
    \/ CloseDrain(p) \/ CloseDispose(p) \/ CloseUnparent(p) \/ CloseUntrack(p) \/ CloseClear(p)
    \/ PCloseCas(p) \/ PCloseSnapshot(p) \/ PCloseNextScope(p) \/ PCloseScopeRet(p) \/ PCloseWaitScope(p)
    \/ PCloseRoot(p) \/ PCloseRootRet(p) \/ PCloseDrain(p) \/ PCloseDispose(p) \/ PCloseClear(p)
    \/ Cancel(p)

AllDone == /\ \A t \in Threads : stack[t] = <<>>
           /\ \A w \in Watchers : wstate[w] \in {"none", "exited"} \/ (wstate[w] = "waiting" /\ ~ctxDone[ScopeOfWatcher(w)])

Next == \/ \E p \in Procs : ProcStep(p)
        \/ \E w \in Watchers : WatcherWake(w) \/ WatcherExit(w)
        \/ (AllDone /\ UNCHANGED vars)

Fairness == \A p \in Procs : WF_vars(ProcStep(p)) /\ \A w \in Watchers : WF_vars(WatcherWake(w) \/ WatcherExit(w))
Spec == Init /\ [][Next]_vars
FairSpec == Spec /\ Fairness

(***************************************************************************)
(* Properties                                                              *)
(***************************************************************************)
\* C10/C12: nothing is ever closed twice
ClosedAtMostOnce == \A i \in DOMAIN closedCount : closedCount[i] <= 1

\* C02: a scope's cache never holds two instances of one scoped service, and everything a scope ever
\* caches or hands out for a scoped key is one instance (single flight)
AtMostOneScoped == \A s \in AllScopes : ~inst[s].nil => \A i, j \in inst[s].v : i.k = j.k => i = j
ScopedResultsAgree == \A t1, t2 \in Threads :
    (stack[t1] = <<>> /\ stack[t2] = <<>> /\ ops[t1].op = "get" /\ ops[t2].op = "get" /\ ops[t1].s = ops[t2].s
     /\ Flight(ops[t1].k) = Flight(ops[t2].k) /\ LifeOfKey(ops[t1].k) = "scoped" /\ result[t1].err = NONE /\ result[t2].err = NONE)
    => result[t1].val = result[t2].val

\* C10: at quiescence everything created in a closed scope (or anywhere, once the provider is closed) is closed once
OwnerClosed(i) == IF i.o = "prov" THEN ~sing /\ pdisposed ELSE done[i.o]
QuiescentAccounting == AllDone => \A i \in created : OwnerClosed(i) => CC(i) = 1
\* C10: nothing is closed while its owner is open and nobody closes it
NoEarlyClose == \A i \in DOMAIN closedCount : closedCount[i] >= 1 =>
                    IF i.o = "prov" THEN pdisposed ELSE disposed[i.o]

\* C11: when a scope drains its own instances every child that is being closed is completely disposed
\* a scope is "in disposal" from its winning compare-and-swap until its last own instance has been closed
InDisposal(c) == \E p \in Procs : \E n \in DOMAIN stack[p] :
    LET f == stack[p][n] IN
    /\ f.proc = "close" /\ f.s = c
    /\ (f.pc \in {"children", "nextchild", "child", "child_ret", "waitchild", "drain"} \/ (f.pc = "dispose" /\ f.todo # <<>>))
\* a scope whose creation overlapped the closing of its parent / provider is closed again by its creator: like a
\* discarded instance it is cleaned up by the overlapping operation itself, outside the parent's Close
Abandoned(c) == \E p \in Threads : c = NewScopeOf(p) /\ \E n \in DOMAIN stack[p] :
                    stack[p][n].proc = "create" /\ stack[p][n].pc \in {"abandon", "abandon_ret"}
DrainAfterChildren == [][\A s \in AllScopes : (drained'[s] /\ ~drained[s]) =>
                          \A c \in AllScopes : (exists[c] /\ parent[c] = s /\ ~Abandoned(c)) => ~InDisposal(c)]_vars
\* C11: singletons are disposed after every scope has disposed all its instances
SingletonsLast == [][(pdisp' = <<>> /\ pdisp # <<>>) => \A s \in AllScopes : (exists[s] /\ ~Abandoned(s)) => ~InDisposal(s)]_vars

\* C13: a closed scope has only closed descendants once its Close has completed
CascadeComplete == \A s \in AllScopes : done[s] => \A c \in AllScopes :
                       (exists[c] /\ parent[c] = s /\ c \in InitScopes) => (disposed[c] /\ ~InDisposal(c))

\* C14: after completion a closed scope is unknown to the provider and to its parent
Released == \A s \in AllScopes : (done[s] /\ AllDone) =>
                /\ (pscopes.nil \/ s \notin pscopes.v)
                /\ (parent[s] = NONE \/ children[parent[s]].nil \/ s \notin children[parent[s]].v)
                /\ ctxDone[s]
WatchersExit == AllDone => \A s \in AllScopes \ {"root"} : (done[s] /\ wstate["w:" \o s] # "none") => wstate["w:" \o s] = "exited"

\* C09/C13: every call returns a result or one of the documented errors (by construction of Return); no
\* process is ever stuck: checked as absence of deadlock (Next has the AllDone stutter) and as liveness:
Termination == <>[]AllDone

\* results are well-formed
ResultOK == \A t \in Threads : stack[t] = <<>> => result[t].err \in {NONE, "scopeDisposed", "providerDisposed"}
=============================================================================
