---------------------------- MODULE RegistryTrace ----------------------------
(* Trace specification for the registry: applies recorded collection calls   *)
(* to Registry's state and evaluates every property-tagged guard.            *)
EXTENDS Registry, Json, IOUtils

CONSTANT Check
Trace == ndJsonDeserialize(IOEnv.VERIF_TRACE)

VARIABLES l, rs, viol, nev
tvars == <<l, rs, viol, nev>>

TInit == l = 1 /\ rs = RInit(<<>>) /\ viol = {} /\ nev = 0

GuardsOf(e) ==
    IF e.ev = "add" THEN GuardsAdd(rs, e)
    ELSE IF e.ev = "modules" THEN GuardsModules(rs, e)
    ELSE IF e.ev = "q" THEN GuardsQ(rs, e, IF e.after = "modules" THEN {"C17", "C20"} ELSE {"C17"})
    ELSE IF e.ev = "built" THEN GuardsBuilt(rs, e, {"C17"})
    ELSE IF e.ev = "probe" THEN GuardsProbe(rs, e)
    ELSE IF e.ev = "twin" THEN GuardsTwin(e)
    ELSE IF e.ev = "panic" THEN {RG("no_panic", {"C15", "C17", "C20"}, FALSE)}
    ELSE {}

Step ==
    /\ l <= Len(Trace)
    /\ LET e  == Trace[l]
           gs == IF e.ev = "reset" THEN {} ELSE GuardsOf(e)
       IN  /\ rs' = IF e.ev = "reset" THEN RInit(e.items) ELSE RApply(rs, e)
           /\ viol' = viol \cup UNION {{<<t, gd.name, l, gd.kf>> : t \in gd.tags \cap Check} : gd \in {x \in gs : ~x.ok}}
           /\ nev' = nev + Cardinality(gs)
    /\ l' = l + 1

Finish ==
    /\ l = Len(Trace) + 1
    /\ PrintT(<<"RESULT", ToJson([lines |-> Len(Trace), evals |-> nev, viol |-> viol])>>)
    /\ l' = l + 1
    /\ UNCHANGED <<rs, viol, nev>>

TNext == Step \/ Finish
TraceSpec == TInit /\ [][TNext]_tvars
=============================================================================
